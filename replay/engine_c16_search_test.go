package engine

// Bounded concrete search for C16: build / remove / re-build / instantiate sequences on one library.

import (
	"fmt"
	"testing"

	"github.com/hyperjumptech/grule-rule-engine/ast"
	"github.com/hyperjumptech/grule-rule-engine/builder"
	"github.com/hyperjumptech/grule-rule-engine/pkg"
)

type replayC16Fact struct{ A, B, C int }

func replayC16Run(lib *ast.KnowledgeLibrary) (replayC16Fact, error) {
	kb, err := lib.NewKnowledgeBaseInstance("K", "1")
	if err != nil {
		return replayC16Fact{}, fmt.Errorf("NewKnowledgeBaseInstance: %w", err)
	}
	f := &replayC16Fact{}
	d := ast.NewDataContext()
	d.Add("F", f)
	e := NewGruleEngine()
	e.MaxCycle = 20
	err = e.Execute(d, kb)
	return *f, err
}

func TestReplaySearchRemove(t *testing.T) {
	ruleR := func(v int) string { return fmt.Sprintf(`rule R "r" { when F.A == 0 then F.A = %d; }`, v) }
	ruleS := `rule S "s" { when F.B == 0 then F.B = 1; }`
	build := func(lib *ast.KnowledgeLibrary, grl string) error {
		return builder.NewRuleBuilder(lib).BuildRuleFromResource("K", "1", pkg.NewBytesResource([]byte(grl)))
	}
	for _, viaLib := range []bool{false, true} {
		remove := func(lib *ast.KnowledgeLibrary, name string) {
			if viaLib {
				lib.RemoveRuleEntry(name, "K", "1")
			} else {
				lib.GetKnowledgeBase("K", "1").RemoveRuleEntry(name)
			}
		}
		lib := ast.NewKnowledgeLibrary()
		if err := build(lib, ruleR(1)+"\n"+ruleS); err != nil {
			t.Fatal(err)
		}
		if f, err := replayC16Run(lib); err != nil || f.A != 1 || f.B != 1 {
			t.Fatalf("CONFIRMED: freshly built rules R and S do not behave per their text: facts=%+v err=%v", f, err)
		}
		for round := 1; round <= 3; round++ {
			remove(lib, "R")
			if f, err := replayC16Run(lib); err != nil || f.A != 0 || f.B != 1 {
				t.Fatalf("CONFIRMED: round %d (viaLib=%v): after RemoveRuleEntry(R) an instance gives facts=%+v err=%v (want A=0 B=1, nil)", round, viaLib, f, err)
			}
			if err := build(lib, ruleR(10+round)); err != nil {
				t.Fatalf("CONFIRMED: round %d: the name of a removed rule cannot be reused: %v", round, err)
			}
			if f, err := replayC16Run(lib); err != nil || f.A != 10+round || f.B != 1 {
				t.Fatalf("CONFIRMED: round %d (viaLib=%v): re-built rule R does not behave per its own text: facts=%+v err=%v", round, viaLib, f, err)
			}
		}
	}
}

// a rule whose name already exists is rejected with an error and the existing rules stay in force (its own harness, so that
// the rounds above are not masked by the open finding it demonstrates)
func TestReplaySearchDuplicateRejected(t *testing.T) {
	build := func(lib *ast.KnowledgeLibrary, grl string) error {
		return builder.NewRuleBuilder(lib).BuildRuleFromResource("K", "1", pkg.NewBytesResource([]byte(grl)))
	}
	for _, dup := range []string{
		`rule R "r" { when F.A == 0 then F.A = 9; }`,
		`rule R "r" { when F.A == 0 then F.A = 1; }`,
		`rule T "t" { when F.C == 0 then F.C = 5; }` + "\n" + `rule S "again" { when F.B == 0 then F.B = 7; }`,
	} {
		lib := ast.NewKnowledgeLibrary()
		if err := build(lib, `rule R "r" { when F.A == 0 then F.A = 1; }`+"\n"+`rule S "s" { when F.B == 0 then F.B = 1; }`); err != nil {
			t.Fatal(err)
		}
		if err := build(lib, dup); err == nil {
			t.Fatalf("CONFIRMED: building a rule whose name already exists was accepted: %s", dup)
		}
		if f, err := replayC16Run(lib); err != nil || f.A != 1 || f.B != 1 {
			t.Fatalf("CONFIRMED: after a rejected duplicate the existing rules are no longer in force: facts=%+v err=%v (rejected text: %s)", f, err, dup)
		}
	}
}

func TestReplaySearchKBKey(t *testing.T) {
	parts := []string{"a", "b", "a:b", "b:c", "c", ":", ""}
	seen := map[string][2]string{}
	for _, n := range parts {
		for _, v := range parts {
			k := ast.GetKnowledgeBaseKey(n, v)
			if p, ok := seen[k]; ok && (p[0] != n || p[1] != v) {
				t.Fatalf("CONFIRMED: knowledge bases (%q,%q) and (%q,%q) share the library key %q", p[0], p[1], n, v, k)
			}
			seen[k] = [2]string{n, v}
		}
	}
}

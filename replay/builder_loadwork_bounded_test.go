package builder

// BOUNDED stand-in (not a proof) for the WORK the GRL loader does per input byte (C20: "time and memory bounded by a modest function
// of the input length"). The deductive part bounds the SIZE of every node's snapshot (each child's snapshot at most once: linear in
// the tree) but no contract bounds how often the listener recomputes snapshots and source texts while it walks the tree (the walk is
// the ANTLR runtime's, T-ANTLR). Here the work is measured deterministically, not by the clock: the volume of memory the loader
// allocates (runtime.MemStats.TotalAlloc, which does not depend on the garbage collector or on timing) for a valid text of nesting
// depth n and of depth 2n. Linear work doubles it, quadratic work quadruples it; a factor above 5.5 is worse than quadratic and is
// reported. All shapes are reported in ONE line, in a fixed order, so that a listed known finding is exactly one set of shapes.

import (
	"fmt"
	"runtime"
	"strings"
	"testing"

	"github.com/hyperjumptech/grule-rule-engine/ast"
	"github.com/hyperjumptech/grule-rule-engine/pkg"
)

func loadWorkBytes(grl string) (uint64, error) {
	var m0, m1 runtime.MemStats
	runtime.GC()
	runtime.ReadMemStats(&m0)
	lib := ast.NewKnowledgeLibrary()
	err := NewRuleBuilder(lib).BuildRuleFromResource("K", "1", pkg.NewBytesResource([]byte(grl)))
	runtime.ReadMemStats(&m1)
	return m1.TotalAlloc - m0.TotalAlloc, err
}

func TestBoundedLoadWork(t *testing.T) {
	shapes := []struct {
		name string
		gen  func(n int) string
	}{
		{"nested parentheses", func(n int) string {
			return `rule R "d" { when ` + strings.Repeat("(", n) + `F.A == 1` + strings.Repeat(")", n) + ` then F.A = 2; }`
		}},
		{"conjunction chain", func(n int) string {
			return `rule R "d" { when F.A == 1` + strings.Repeat(" && F.B == 2", n) + ` then F.A = 2; }`
		}},
		{"sum chain", func(n int) string { return `rule R "d" { when F.A` + strings.Repeat(" + 1", n) + ` == 3 then F.A = 2; }` }},
		{"selector chain", func(n int) string { return `rule R "d" { when F.f()` + strings.Repeat("[0]", n) + ` == 1 then F.A = 2; }` }},
		{"call chain", func(n int) string { return `rule R "d" { when F` + strings.Repeat(".G()", n) + `.A == 1 then F.A = 2; }` }},
		{"many rules", func(n int) string {
			var b strings.Builder
			for i := 0; i < n; i++ {
				fmt.Fprintf(&b, "rule R%d \"d\" { when F.A == %d then F.A = %d; }\n", i, i, i+1)
			}
			return b.String()
		}},
		{"action list", func(n int) string { return `rule R "d" { when F.A == 1 then ` + strings.Repeat("F.A = F.A + 1; ", n) + `}` }},
	}
	const n = 150
	var bad []string
	for _, s := range shapes {
		loadWorkBytes(s.gen(8)) // warm up lazily built tables of the recogniser
		w1, err1 := loadWorkBytes(s.gen(n))
		w2, err2 := loadWorkBytes(s.gen(2 * n))
		if err1 != nil || err2 != nil {
			t.Fatalf("harness: shape %q does not load: %v %v", s.name, err1, err2)
		}
		ratio := float64(w2) / float64(w1)
		t.Logf("%s: %d bytes of text -> %d bytes allocated, %d bytes of text -> %d bytes allocated, factor %.2f", s.name, len(s.gen(n)), w1, len(s.gen(2*n)), w2, ratio)
		if ratio > 5.5 {
			bad = append(bad, "["+s.name+"]")
		}
	}
	if len(bad) > 0 {
		t.Fatalf("CONFIRMED: %d shape(s) of valid GRL text make the loader's work grow faster than quadratically in the text length (allocation volume at depth 300 more than 5.5 times that at depth 150): %s", len(bad), strings.Join(bad, " "))
	}
	fmt.Printf("BOUNDED-CASES: %d shapes of valid text at depth %d and %d, allocation volume compared\n", len(shapes), n, 2*n)
}

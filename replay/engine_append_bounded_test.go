package engine

// BOUNDED stand-in (not a proof) for model.(*GoValueNode).AppendValue - reflect.Append over a variadic list of reflect.Values, reached
// through the function-value table of CallFunction: outside the verified subset (an ASSUMED contract in the deductive part).
// C05: a built-in array function "receives the evaluated arguments in order" (variadic included); C04: every other piece of fact data
// is left unchanged and the result is visible in the caller's own Go objects. Stated on the real engine: after `F.<slice>.Append(a1..ak)`
// the slice is its old content followed by exactly a1..ak in order, every other field of the fact is what it was, and the statements
// around the call ran. Argument values are literals, fact fields and computed expressions, with and without repeats.

import (
	"fmt"
	"reflect"
	"testing"

	"github.com/hyperjumptech/grule-rule-engine/ast"
	"github.com/hyperjumptech/grule-rule-engine/builder"
	"github.com/hyperjumptech/grule-rule-engine/pkg"
)

type boundedAppendChild struct{ N int }

type boundedAppendFact struct {
	Go, After int
	I1, I2    int64
	X1, X2    float64
	S1, S2    string
	C1, C2    *boundedAppendChild
	Longs     []int64
	Reals     []float64
	Strs      []string
	Kids      []*boundedAppendChild
	Empty     []int64
	Other     []int64
}

func TestBoundedAppendValue(t *testing.T) {
	c1, c2 := &boundedAppendChild{1}, &boundedAppendChild{2}
	fresh := func() *boundedAppendFact {
		return &boundedAppendFact{I1: 7, I2: 9, X1: 0.25, X2: 0.5, S1: "p", S2: "q", C1: c1, C2: c2,
			Longs: []int64{100, 20, 30}, Reals: []float64{1.5}, Strs: []string{"a"}, Kids: []*boundedAppendChild{c2}, Other: []int64{5, 6}}
	}
	type tc struct {
		stmt string
		want func(f *boundedAppendFact)
	}
	cases := []tc{
		{`F.Longs.Append(40);`, func(f *boundedAppendFact) { f.Longs = append(f.Longs, 40) }},
		{`F.Longs.Append(40, 50);`, func(f *boundedAppendFact) { f.Longs = append(f.Longs, 40, 50) }},
		{`F.Longs.Append(50, 40, 50);`, func(f *boundedAppendFact) { f.Longs = append(f.Longs, 50, 40, 50) }},
		{`F.Longs.Append(F.I1, F.I2);`, func(f *boundedAppendFact) { f.Longs = append(f.Longs, 7, 9) }},
		{`F.Longs.Append(F.I2, F.I1 + 1, F.Longs[0]);`, func(f *boundedAppendFact) { f.Longs = append(f.Longs, 9, 8, 100) }},
		{`F.Longs.Append(F.Longs[2], F.Longs[1]);`, func(f *boundedAppendFact) { f.Longs = append(f.Longs, 30, 20) }},
		{`F.Empty.Append(1, 2, 3);`, func(f *boundedAppendFact) { f.Empty = append(f.Empty, 1, 2, 3) }},
		{`F.Reals.Append(0.25);`, func(f *boundedAppendFact) { f.Reals = append(f.Reals, 0.25) }},
		{`F.Reals.Append(0.25, 0.5, 0.75);`, func(f *boundedAppendFact) { f.Reals = append(f.Reals, 0.25, 0.5, 0.75) }},
		{`F.Reals.Append(F.X2, F.X1);`, func(f *boundedAppendFact) { f.Reals = append(f.Reals, 0.5, 0.25) }},
		{`F.Strs.Append("x");`, func(f *boundedAppendFact) { f.Strs = append(f.Strs, "x") }},
		{`F.Strs.Append("x", "y");`, func(f *boundedAppendFact) { f.Strs = append(f.Strs, "x", "y") }},
		{`F.Strs.Append(F.S2, F.S1 + "z", "");`, func(f *boundedAppendFact) { f.Strs = append(f.Strs, "q", "pz", "") }},
		{`F.Kids.Append(F.C1);`, func(f *boundedAppendFact) { f.Kids = append(f.Kids, c1) }},
		{`F.Kids.Append(F.C1, F.C2, F.C1);`, func(f *boundedAppendFact) { f.Kids = append(f.Kids, c1, c2, c1) }},
		{`F.Longs.Append(1); F.Longs.Append(2, 3);`, func(f *boundedAppendFact) { f.Longs = append(f.Longs, 1, 2, 3) }},
		{`F.Longs.Append(1, 2); F.Other.Append(F.Longs[3], F.Longs[4]);`, func(f *boundedAppendFact) {
			f.Longs = append(f.Longs, 1, 2)
			f.Other = append(f.Other, 1, 2)
		}},
	}
	n := 0
	for _, c := range cases {
		grl := `rule A "a" { when F.Go == 0 then F.Go = 1; ` + c.stmt + ` F.After = 1; }`
		lib := ast.NewKnowledgeLibrary()
		if err := builder.NewRuleBuilder(lib).BuildRuleFromResource("K", "1", pkg.NewBytesResource([]byte(grl))); err != nil {
			t.Fatalf("harness: %s does not build: %v", c.stmt, err)
		}
		kb, err := lib.NewKnowledgeBaseInstance("K", "1")
		if err != nil {
			t.Fatalf("harness: %v", err)
		}
		f := fresh()
		dctx := ast.NewDataContext()
		if err := dctx.Add("F", f); err != nil {
			t.Fatalf("harness: %v", err)
		}
		eng := &GruleEngine{MaxCycle: 10}
		err = eng.Execute(dctx, kb)
		want := fresh()
		want.Go, want.After = 1, 1
		c.want(want)
		n++
		if err != nil {
			t.Fatalf("CONFIRMED: `%s` on %+v is refused (%v); documented effect: the arguments are appended in order", c.stmt, *fresh(), err)
		}
		if !reflect.DeepEqual(f, want) {
			t.Fatalf("CONFIRMED: `%s`: Longs=%v Reals=%v Strs=%v Kids=%v Empty=%v Other=%v Go=%d After=%d, expected Longs=%v Reals=%v Strs=%v Kids=%v Empty=%v Other=%v Go=1 After=1 (old content followed by the evaluated arguments in order, nothing else touched)",
				c.stmt, f.Longs, f.Reals, f.Strs, f.Kids, f.Empty, f.Other, f.Go, f.After, want.Longs, want.Reals, want.Strs, want.Kids, want.Empty, want.Other)
		}
		for i := range f.Kids {
			if f.Kids[i] != want.Kids[i] {
				t.Fatalf("CONFIRMED: `%s`: element %d of Kids is a different pointer than the argument", c.stmt, i)
			}
		}
	}
	fmt.Printf("BOUNDED-CASES: %d Append statements compared with old content + evaluated arguments in order\n", n)
}

package antlr

// BOUNDED stand-in (not a proof) for unquoteString, which is outside the verified subset (byte-level appends): every string of
// length <= 4 over a 14-symbol alphabet of critical characters, between matching double and single quotes, is decoded by the
// real function and by an independent oracle built on strconv.Unquote; results and acceptance must agree.

import (
	"strconv"
	"strings"
	"testing"
)

// oracle: a double-quoted literal means what Go's strconv.Unquote says; a single-quoted literal means the same as the
// double-quoted literal obtained by escaping bare double quotes and un-escaping \'.
func boundedUnquoteOracle(lit string) (string, bool) {
	if len(lit) < 2 || lit[0] != lit[len(lit)-1] {
		return "", false
	}
	q := lit[0]
	body := lit[1 : len(lit)-1]
	switch q {
	case '"':
		if strings.ContainsRune(body, '\n') {
			return "", false
		}
		s, err := strconv.Unquote(lit)
		return s, err == nil
	case '\'':
		var b strings.Builder
		for i := 0; i < len(body); i++ {
			c := body[i]
			switch {
			case c == '\\' && i+1 < len(body) && body[i+1] == '\'':
				b.WriteByte('\'')
				i++
			case c == '\\' && i+1 < len(body) && body[i+1] == '"':
				return "", false // \" is not an escape inside single quotes
			case c == '\\' && i+1 < len(body):
				b.WriteByte(c)
				b.WriteByte(body[i+1])
				i++
			case c == '"':
				b.WriteString(`\"`)
			case c == '\'':
				return "", false // bare quote inside
			default:
				b.WriteByte(c)
			}
		}
		if strings.ContainsRune(body, '\n') {
			return "", false
		}
		s, err := strconv.Unquote(`"` + b.String() + `"`)
		return s, err == nil
	}
	return "", false
}

func TestBoundedUnquoteString(t *testing.T) {
	alphabet := []string{"a", "\\", "\"", "'", "x", "e", "9", "3", "5", "1", "n", "u", "\xc3\xa9", "0"}
	cases := 0
	var rec func(prefix string, depth int)
	rec = func(prefix string, depth int) {
		for _, q := range []string{"\"", "'"} {
			lit := q + prefix + q
			got, err := unquoteString(lit)
			want, ok := boundedUnquoteOracle(lit)
			cases++
			if (err == nil) != ok || (ok && got != want) {
				t.Fatalf("CONFIRMED: unquoteString(%q) = %q, err=%v; a GRL string literal must denote the Go string %q (accepted=%v)", lit, got, err, want, ok)
			}
		}
		if depth == 0 {
			return
		}
		for _, a := range alphabet {
			rec(prefix+a, depth-1)
		}
	}
	rec("", 4)
	// longer escapes the alphabet cannot reach at depth 4
	for _, lit := range []string{`"\xe9"`, `"\xff"`, `'\351'`, `"é"`, `"\U0001F600"`, `"\x41\x80z"`, `'\xe9\''`, `"é\xe9"`, `"\377"`, `"\1"`, `"\x4"`, `"\ud800"`} {
		got, err := unquoteString(lit)
		want, ok := boundedUnquoteOracle(lit)
		cases++
		if (err == nil) != ok || (ok && got != want) {
			t.Fatalf("CONFIRMED: unquoteString(%s) = %q, err=%v; a GRL string literal must denote the Go string %q (accepted=%v)", strconv.Quote(lit), got, err, want, ok)
		}
	}
	t.Logf("BOUNDED-CASES: %d", cases)
}

package engine

// BOUNDED stand-in (not a proof) for model.(*GoValueNode).CallFunction - reflection over method values and tables of function
// values, outside the verified subset (an ASSUMED contract in the deductive part). C14: a built-in method or fact method that is
// called as an action statement and FAILS (wrong argument kind or count, unknown method, element type mismatch) makes Execute
// return an error naming the rule, keeps the effects of the actions already completed and runs nothing afterwards; the
// well-formed call of the same method succeeds and has its effect.

import (
	"fmt"
	"strings"
	"testing"

	"github.com/hyperjumptech/grule-rule-engine/ast"
	"github.com/hyperjumptech/grule-rule-engine/builder"
	"github.com/hyperjumptech/grule-rule-engine/pkg"
)

type boundedCallFact struct {
	Go, After int
	Name      string
	Arr       []int
	Strs      []string
	Longs     []int64
	M         map[string]int
	Hits      int
}

func (f *boundedCallFact) Hit()            { f.Hits++ }
func (f *boundedCallFact) Two() (int, int) { return 1, 2 }

// fact methods that panic, with panic values of every shape (seed C14f: a recover that understood only error, string and Stringer)
type boundedPanicValue struct{ Code int }

func (f *boundedCallFact) PanicInt()     { panic(42) }
func (f *boundedCallFact) PanicStruct()  { panic(boundedPanicValue{7}) }
func (f *boundedCallFact) PanicPtr()     { panic(&boundedPanicValue{7}) }
func (f *boundedCallFact) PanicErr()     { panic(fmt.Errorf("boom")) }
func (f *boundedCallFact) PanicStr()     { panic("boom") }
func (f *boundedCallFact) PanicBool()    { panic(false) }
func (f *boundedCallFact) PanicFloat()   { panic(2.5) }
func (f *boundedCallFact) PanicRuntime() { var m map[string]int; m["a"] = 1 }
func (f *boundedCallFact) PanicIndex() int {
	var a []int
	return a[3]
}
func (f *boundedCallFact) PanicWith(x int64) int64 { panic(x) }

func TestBoundedCallFunctionErrors(t *testing.T) {
	failing := []string{
		`F.Arr.Append("str");`,       // element type mismatch
		`F.Strs.Append(5);`,          // element type mismatch
		`F.Arr.Append(5);`,           // an integer literal is an int64: not an element of []int
		`F.Name.Replace("a");`,       // wrong argument count
		`F.Name.Len(1);`,             // wrong argument count
		`F.Name.NoSuchStringFunc();`, // unknown built-in for strings
		`F.Arr.NoSuchArrayFunc();`,   // unknown built-in for arrays
		`F.M.NoSuchMapFunc();`,       // unknown built-in for maps
		`F.NoSuchMethod();`,          // unknown fact method
		`F.Two();`,                   // multiple return values are not supported
		`F.Hit(1);`,                  // wrong argument count for a fact method
		`F.PanicInt();`,              // a fact method that panics: every shape of panic value
		`F.PanicStruct();`,
		`F.PanicPtr();`,
		`F.PanicErr();`,
		`F.PanicStr();`,
		`F.PanicBool();`,
		`F.PanicFloat();`,
		`F.PanicRuntime();`,
		`F.After = F.PanicIndex();`,  // ... also as the right-hand side of an assignment
		`F.After = F.PanicWith(3);`,  // ... and with an argument
	}
	succeeding := []struct {
		stmt  string
		check func(f *boundedCallFact) bool
	}{
		{`F.Longs.Append(5);`, func(f *boundedCallFact) bool { return len(f.Longs) == 2 && f.Longs[1] == 5 }},
		{`F.Strs.Append("x");`, func(f *boundedCallFact) bool { return len(f.Strs) == 2 && f.Strs[1] == "x" }},
		{`F.Hit();`, func(f *boundedCallFact) bool { return f.Hits == 1 }},
	}
	run := func(stmt string) (*boundedCallFact, error) {
		grl := `rule A "a" { when F.Go == 0 then F.Go = 1; ` + stmt + ` F.After = 1; }` + "\n" + `rule B "b" salience -1 { when F.Go == 1 && F.After == 0 then F.After = 2; }`
		lib := ast.NewKnowledgeLibrary()
		if err := builder.NewRuleBuilder(lib).BuildRuleFromResource("K", "1", pkg.NewBytesResource([]byte(grl))); err != nil {
			return nil, fmt.Errorf("build: %v", err)
		}
		kb, err := lib.NewKnowledgeBaseInstance("K", "1")
		if err != nil {
			return nil, fmt.Errorf("instance: %v", err)
		}
		f := &boundedCallFact{Name: "abc", Arr: []int{1, 2}, Longs: []int64{1}, Strs: []string{"s"}, M: map[string]int{"k": 1}}
		d := ast.NewDataContext()
		d.Add("F", f)
		e := NewGruleEngine()
		e.MaxCycle = 5
		var res error
		func() {
			defer func() {
				if r := recover(); r != nil {
					res = fmt.Errorf("PANIC ESCAPED: %v", r)
				}
			}()
			res = e.Execute(d, kb)
		}()
		return f, res
	}
	cases := 0
	var bad []string
	for _, stmt := range failing {
		cases++
		f, res := run(stmt)
		switch {
		case f == nil:
			t.Fatalf("harness rule does not build for %s: %v", stmt, res)
		case res == nil:
			bad = append(bad, stmt+" (Execute returned nil, After="+fmt.Sprint(f.After)+")")
		case strings.Contains(res.Error(), "PANIC ESCAPED"):
			bad = append(bad, stmt+" ("+res.Error()+")")
		case !strings.Contains(res.Error(), "A"):
			bad = append(bad, stmt+" (error does not name the rule: "+res.Error()+")")
		case f.Go != 1:
			bad = append(bad, stmt+" (effect of the completed action lost)")
		case f.After != 0:
			bad = append(bad, stmt+" (something ran after the failing action: After="+fmt.Sprint(f.After)+")")
		}
	}
	for _, sc := range succeeding {
		cases++
		f, res := run(sc.stmt)
		if f == nil || res != nil || !sc.check(f) || f.After != 1 {
			bad = append(bad, sc.stmt+" (well-formed call failed or had no effect: "+fmt.Sprint(res)+")")
		}
	}
	if len(bad) > 0 {
		t.Fatalf("CONFIRMED: %d action call(s) whose failure is not contained and reported as C14 says: %s", len(bad), strings.Join(bad, " ; "))
	}
	fmt.Printf("BOUNDED-CASES: %d action statements (%d failing calls, %d well-formed)\n", cases, len(failing), len(succeeding))
}

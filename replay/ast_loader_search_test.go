package ast

// Bounded concrete search for C20 / C12 on the binary loader: length-field edits and truncations of a valid stream.

import (
	"time"
	"bytes"
	"encoding/binary"
	"fmt"
	"runtime"
	"testing"
)

func replayAllocDelta(f func()) uint64 {
	var a, b runtime.MemStats
	runtime.GC()
	runtime.ReadMemStats(&a)
	f()
	runtime.ReadMemStats(&b)
	return b.TotalAlloc - a.TotalAlloc
}

// a length prefix far beyond the data that follows: allocation must stay proportional to the input
func TestReplaySearchLoaderAlloc(t *testing.T) {
	for _, claimed := range []uint64{1 << 26, 1 << 28} {
		in := make([]byte, 8+8)
		binary.LittleEndian.PutUint64(in, claimed)
		var err error
		delta := replayAllocDelta(func() { _, err = ReadStringFromReader(bytes.NewReader(in)) })
		if delta > 64*uint64(len(in))+1<<20 {
			t.Fatalf("CONFIRMED: ReadStringFromReader allocated %d bytes for a %d-byte input whose length prefix claims %d bytes (err=%v)", delta, len(in), claimed, err)
		}
	}
}

// a length prefix >= 2^63 makes int(length) negative: make() panics
func TestReplaySearchLoaderPanic(t *testing.T) {
	in := make([]byte, 16)
	binary.LittleEndian.PutUint64(in, 1<<63)
	func() {
		defer func() {
			if r := recover(); r != nil {
				t.Fatalf("CONFIRMED: ReadStringFromReader panicked on a 16-byte input with length prefix 2^63: %v", r)
			}
		}()
		ReadStringFromReader(bytes.NewReader(in))
	}()
	_ = fmt.Sprint
}

// every strict prefix of a valid stream must be rejected by LoadKnowledgeBaseFromReader (C12: truncation => error)
func TestReplaySearchLoaderTruncation(t *testing.T) {
	lib := NewKnowledgeLibrary()
	kb := lib.GetKnowledgeBase("K", "1")
	kb.AddRuleEntry(&RuleEntry{AstID: "r1", RuleName: "R1", WhenScope: &WhenScope{AstID: "w1"}, ThenScope: &ThenScope{AstID: "t1"}})
	var buf bytes.Buffer
	if err := lib.StoreKnowledgeBaseToWriter(&buf, "K", "1"); err != nil {
		t.Skipf("cannot store: %v", err)
	}
	full := buf.Bytes()
	for cut := 0; cut < len(full); cut++ {
		l2 := NewKnowledgeLibrary()
		type res struct {
			kb  *KnowledgeBase
			err error
		}
		done := make(chan res, 1)
		go func() {
			kb2, err := l2.LoadKnowledgeBaseFromReader(bytes.NewReader(full[:cut]), true)
			done <- res{kb2, err}
		}()
		select {
		case r := <-done:
			if r.err == nil {
				t.Fatalf("CONFIRMED: a stream cut at byte %d of %d loads without error (knowledge base %v)", cut, len(full), r.kb != nil)
			}
		case <-time.After(5 * time.Second):
			// C20: the loader must return (a watchdog, not a time bound: every prefix of this stream loads in microseconds)
			t.Fatalf("CONFIRMED: LoadKnowledgeBaseFromReader does not return within 5 s on a %d-byte stream cut at byte %d", len(full), cut)
		}
	}
}

// C16 / C12: a rule removed from the library must stay removed after store + load
func TestReplaySearchDeletedSurvivesStoreLoad(t *testing.T) {
	lib := NewKnowledgeLibrary()
	kb := lib.GetKnowledgeBase("K", "1")
	kb.AddRuleEntry(&RuleEntry{AstID: "r1", RuleName: "R1", WhenScope: &WhenScope{AstID: "w1"}, ThenScope: &ThenScope{AstID: "t1"}})
	lib.RemoveRuleEntry("R1", "K", "1")
	var buf bytes.Buffer
	if err := lib.StoreKnowledgeBaseToWriter(&buf, "K", "1"); err != nil {
		t.Skipf("cannot store: %v", err)
	}
	l2 := NewKnowledgeLibrary()
	kb2, err := l2.LoadKnowledgeBaseFromReader(bytes.NewReader(buf.Bytes()), true)
	if err != nil {
		t.Skipf("cannot load: %v", err)
	}
	for name, re := range kb2.RuleEntries {
		if !re.Deleted {
			t.Fatalf("CONFIRMED: rule %q was removed from the library before storing; after load it is back as a live (Deleted=false) rule", name)
		}
	}
}

// F28: a COUNT or LENGTH field of a record (not of a string) far beyond the data that follows: the loader must not allocate
// what the field says. Streams are built field by field in the binary format (strings = u64 length + bytes, integers = u64 LE).
func TestReplaySearchLoaderCountAlloc(t *testing.T) {
	str := func(b *bytes.Buffer, s string) {
		l := make([]byte, 8)
		binary.LittleEndian.PutUint64(l, uint64(len(s)))
		b.Write(l)
		b.WriteString(s)
	}
	u64 := func(b *bytes.Buffer, v uint64) {
		l := make([]byte, 8)
		binary.LittleEndian.PutUint64(l, v)
		b.Write(l)
	}
	head := func(kind uint64) *bytes.Buffer {
		b := &bytes.Buffer{}
		str(b, Version)
		str(b, "n")
		str(b, "v")
		u64(b, 1) // one record
		str(b, "k")
		u64(b, kind)
		str(b, "k")
		str(b, "g")
		str(b, "s")
		return b
	}
	type tc struct {
		name string
		in   []byte
	}
	var cases []tc
	for _, claimed := range []uint64{1 << 22, 1 << 24} {
		b := head(uint64(TypeConstant))
		u64(b, uint64(TypeInteger))
		u64(b, claimed*16)
		cases = append(cases, tc{fmt.Sprintf("ConstantMeta value-bytes length %d", claimed*16), b.Bytes()})
		b = head(uint64(TypeArgumentList))
		u64(b, claimed)
		cases = append(cases, tc{fmt.Sprintf("ArgumentListMeta count %d", claimed), b.Bytes()})
		b = head(uint64(TypeThenExpressionList))
		u64(b, claimed)
		cases = append(cases, tc{fmt.Sprintf("ThenExpressionListMeta count %d", claimed), b.Bytes()})
		// a string constant whose inner length claims more than its value bytes hold (rebuilt by BuildKnowledgeBase)
		b = head(uint64(TypeConstant))
		u64(b, uint64(TypeString))
		u64(b, 8)
		u64(b, claimed*16)
		b.WriteByte(0) // IsNil
		str(b, "mn")
		str(b, "mv")
		for i := 0; i < 5; i++ {
			u64(b, 0)
		}
		cases = append(cases, tc{fmt.Sprintf("string constant inner length %d", claimed*16), b.Bytes()})
		// the two working-memory index readers: no records, three empty snapshot maps, one index entry with a huge count
		for idx := 0; idx < 2; idx++ {
			b = &bytes.Buffer{}
			str(b, Version)
			str(b, "n")
			str(b, "v")
			u64(b, 0)
			str(b, "mn")
			str(b, "mv")
			u64(b, 0)
			u64(b, 0)
			u64(b, 0)
			if idx == 1 {
				u64(b, 0)
			}
			u64(b, 1)
			str(b, "k")
			u64(b, claimed)
			cases = append(cases, tc{fmt.Sprintf("working-memory index %d entry count %d", idx, claimed), b.Bytes()})
		}
	}
	for _, c := range cases {
		var err error
		delta := replayAllocDelta(func() {
			func() {
				defer func() { recover() }()
				_, err = NewKnowledgeLibrary().LoadKnowledgeBaseFromReader(bytes.NewReader(c.in), true)
			}()
		})
		if delta > 64*uint64(len(c.in))+1<<20 {
			t.Fatalf("CONFIRMED: LoadKnowledgeBaseFromReader allocated %d bytes for a %d-byte stream (%s; err=%v)", delta, len(c.in), c.name, err)
		}
	}
}

package model

// BOUNDED stand-in (not a proof) for the built-in string functions of model/DataAccessLayer.go (C05: "constant functions on
// strings"). The deductive part has no string theory (strings are an uninterpreted sort), so WHAT these functions compute cannot be
// stated there without pinning the code's own library calls (a behaviour-preserving rewrite would raise a false alarm). Here every
// function is compared with the documented meaning (docs/en/Function_en.md: "is like strings.X") on a small domain that contains the
// edge shapes: the empty string, an argument longer than the receiver, an argument equal to it, repeated and overlapping matches,
// blanks and mixed case.

import (
	"encoding/json"
	"fmt"
	"reflect"
	"regexp"
	"strings"
	"testing"
)

func boundedStrDomain() []string {
	d := []string{"", " ", "A", "aB", " ab ", "abc", "abab", "aaa"}
	for _, a := range []string{"a", "b"} {
		d = append(d, a)
		for _, b := range []string{"a", "b"} {
			d = append(d, a+b)
			for _, c := range []string{"a", "b"} {
				d = append(d, a+b+c)
			}
		}
	}
	return d
}

func TestBoundedStringBuiltins(t *testing.T) {
	dom := boundedStrDomain()
	rv := func(xs ...interface{}) []reflect.Value {
		out := make([]reflect.Value, len(xs))
		for i, x := range xs {
			out[i] = reflect.ValueOf(x)
		}
		return out
	}
	cases := 0
	check := func(name, recv string, args []interface{}, got reflect.Value, err error, want interface{}) {
		cases++
		if err != nil {
			t.Fatalf("CONFIRMED: %q.%s(%v) is refused (%v); documented result %v", recv, name, args, err, want)
		}
		if !got.IsValid() || !reflect.DeepEqual(got.Interface(), want) {
			var g interface{} = "<invalid>"
			if got.IsValid() {
				g = got.Interface()
			}
			t.Fatalf("CONFIRMED: %q.%s(%v) = %#v, documented result %#v", recv, name, args, g, want)
		}
	}
	for _, s := range dom {
		r, err := StrLen(s, nil)
		check("Len", s, nil, r, err, len(s))
		r, err = StrToLower(s, nil)
		check("ToLower", s, nil, r, err, strings.ToLower(s))
		r, err = StrToUpper(s, nil)
		check("ToUpper", s, nil, r, err, strings.ToUpper(s))
		r, err = StrTrim(s, nil)
		check("Trim", s, nil, r, err, strings.TrimSpace(s))
		for _, n := range []int64{0, 1, 2, 3} {
			r, err = StrRepeat(s, rv(n))
			check("Repeat", s, []interface{}{n}, r, err, strings.Repeat(s, int(n)))
		}
		r, err = StrIn(s, nil)
		check("In", s, nil, r, err, false)
		for _, a := range dom {
			one := []interface{}{a}
			r, err = StrCompare(s, rv(a))
			check("Compare", s, one, r, err, strings.Compare(s, a))
			r, err = StrContains(s, rv(a))
			check("Contains", s, one, r, err, strings.Contains(s, a))
			r, err = StrCount(s, rv(a))
			check("Count", s, one, r, err, strings.Count(s, a))
			r, err = StrHasPrefix(s, rv(a))
			check("HasPrefix", s, one, r, err, strings.HasPrefix(s, a))
			r, err = StrHasSuffix(s, rv(a))
			check("HasSuffix", s, one, r, err, strings.HasSuffix(s, a))
			r, err = StrIndex(s, rv(a))
			check("Index", s, one, r, err, strings.Index(s, a))
			r, err = StrLastIndex(s, rv(a))
			check("LastIndex", s, one, r, err, strings.LastIndex(s, a))
			r, err = StrSplit(s, rv(a))
			check("Split", s, one, r, err, strings.Split(s, a))
			r, err = StrIn(s, rv(a))
			check("In", s, one, r, err, s == a)
			r, err = StrIn(s, rv("zz", a))
			check("In", s, []interface{}{"zz", a}, r, err, s == a)
			r, err = StrIn(s, rv(a, "zz"))
			check("In", s, []interface{}{a, "zz"}, r, err, s == a)
			m, _ := regexp.MatchString(regexp.QuoteMeta(a), s)
			r, err = StrMatchRegexPattern(s, rv(regexp.QuoteMeta(a)))
			check("MatchString", s, []interface{}{regexp.QuoteMeta(a)}, r, err, m)
			for _, b := range []string{"", "x", "ab"} {
				r, err = StrReplace(s, rv(a, b))
				check("Replace", s, []interface{}{a, b}, r, err, strings.ReplaceAll(s, a, b))
			}
		}
		m, _ := regexp.MatchString("^a+b?$", s)
		r, err = StrMatchRegexPattern(s, rv("^a+b?$"))
		check("MatchString", s, []interface{}{"^a+b?$"}, r, err, m)
	}
	// argument validation: wrong count / wrong kind is refused, never answered
	for name, f := range map[string]func(string, []reflect.Value) (reflect.Value, error){"Compare": StrCompare, "Contains": StrContains, "Count": StrCount, "HasPrefix": StrHasPrefix, "HasSuffix": StrHasSuffix, "Index": StrIndex, "LastIndex": StrLastIndex, "Split": StrSplit, "MatchString": StrMatchRegexPattern} {
		for _, bad := range [][]reflect.Value{nil, rv(), rv("a", "b"), rv(1)} {
			if _, err := f("ab", bad); err == nil {
				t.Fatalf("CONFIRMED: \"ab\".%s with %d argument(s) of the wrong shape is answered instead of refused", name, len(bad))
			}
		}
	}
	if _, err := StrLen("ab", rv("a")); err == nil {
		t.Fatalf("CONFIRMED: \"ab\".Len(\"a\") is answered instead of refused")
	}
	if _, err := StrIn("ab", rv(1)); err == nil {
		t.Fatalf("CONFIRMED: \"ab\".In(1) is answered instead of refused")
	}
	// dispatch: the documented NAME of every built-in reaches the function of that name on both node kinds (seed C05f: a lookup
	// table whose "LastIndex" row held StrIndex). Every name is called through CallFunction on a Go string node and on a JSON
	// string node, on receivers where the functions differ pairwise (repeated matches, mixed case, blanks).
	type disp struct {
		name string
		args []interface{}
		want func(s string) interface{}
	}
	table := []disp{
		{"Len", nil, func(s string) interface{} { return len(s) }},
		{"ToLower", nil, func(s string) interface{} { return strings.ToLower(s) }},
		{"ToUpper", nil, func(s string) interface{} { return strings.ToUpper(s) }},
		{"Trim", nil, func(s string) interface{} { return strings.TrimSpace(s) }},
		{"Repeat", []interface{}{int64(2)}, func(s string) interface{} { return strings.Repeat(s, 2) }},
		{"Compare", []interface{}{"ab"}, func(s string) interface{} { return strings.Compare(s, "ab") }},
		{"Contains", []interface{}{"ab"}, func(s string) interface{} { return strings.Contains(s, "ab") }},
		{"Count", []interface{}{"ab"}, func(s string) interface{} { return strings.Count(s, "ab") }},
		{"HasPrefix", []interface{}{"ab"}, func(s string) interface{} { return strings.HasPrefix(s, "ab") }},
		{"HasSuffix", []interface{}{"ab"}, func(s string) interface{} { return strings.HasSuffix(s, "ab") }},
		{"Index", []interface{}{"ab"}, func(s string) interface{} { return strings.Index(s, "ab") }},
		{"LastIndex", []interface{}{"ab"}, func(s string) interface{} { return strings.LastIndex(s, "ab") }},
		{"Split", []interface{}{"b"}, func(s string) interface{} { return strings.Split(s, "b") }},
		{"In", []interface{}{"abab", "zz"}, func(s string) interface{} { return s == "abab" || s == "zz" }},
		{"MatchString", []interface{}{"^a+b?$"}, func(s string) interface{} { m, _ := regexp.MatchString("^a+b?$", s); return m }},
		{"Replace", []interface{}{"ab", "x"}, func(s string) interface{} { return strings.ReplaceAll(s, "ab", "x") }},
	}
	dispatched := 0
	for _, s := range []string{"abab", " aB ", "xabyabz", "ab", "", "aab", "ba"} {
		quoted, _ := json.Marshal(s)
		jn, jerr := NewJSONValueNode(string(quoted), "J")
		if jerr != nil {
			t.Fatalf("CONFIRMED: JSON string %s is not accepted as a fact: %v", quoted, jerr)
		}
		nodes := map[string]ValueNode{"Go": NewGoValueNode(reflect.ValueOf(s), "S"), "JSON": jn}
		for kind, n := range nodes {
			for _, d := range table {
				got, err := n.CallFunction(d.name, rv(d.args...)...)
				want := d.want(s)
				dispatched++
				if err != nil {
					t.Fatalf("CONFIRMED: %q.%s(%v) through CallFunction of a %s node is refused (%v); documented result %#v", s, d.name, d.args, kind, err, want)
				}
				if !got.IsValid() || !reflect.DeepEqual(got.Interface(), want) {
					var g interface{} = "<invalid>"
					if got.IsValid() {
						g = got.Interface()
					}
					t.Fatalf("CONFIRMED: %q.%s(%v) through CallFunction of a %s node = %#v, documented result %#v", s, d.name, d.args, kind, g, want)
				}
			}
			if _, err := n.CallFunction("NoSuchFunction"); err == nil {
				t.Fatalf("CONFIRMED: %q.NoSuchFunction() through CallFunction of a %s node is answered instead of refused", s, kind)
			}
		}
	}
	// Len of arrays and maps through the same dispatcher
	for kind, n := range map[string]ValueNode{"Go slice": NewGoValueNode(reflect.ValueOf([]int{1, 2, 3}), "A"), "Go map": NewGoValueNode(reflect.ValueOf(map[string]int{"a": 1, "b": 2, "c": 3}), "M")} {
		got, err := n.CallFunction("Len")
		dispatched++
		if err != nil || !got.IsValid() || got.Int() != 3 {
			t.Fatalf("CONFIRMED: Len() through CallFunction of a %s node of three elements: %v, %v", kind, got, err)
		}
	}
	fmt.Printf("BOUNDED-CASES: %d calls compared with the documented result, 38 malformed argument lists refused, %d calls dispatched by name through CallFunction\n", cases, dispatched)
}

package engine

// Bounded concrete search for C18: JSON operator trees (depth <= 3 over and/or, the six comparisons, plus/minus/mul and
// obj/const leaves) are translated, built and executed; the rule must fire exactly when a direct evaluation of the JSON tree
// (operands grouped as nested, int64 arithmetic) says so. String constants with awkward characters must round-trip.

import (
	"encoding/json"
	"fmt"
	"math/rand"
	"strings"
	"testing"

	"github.com/hyperjumptech/grule-rule-engine/ast"
	"github.com/hyperjumptech/grule-rule-engine/builder"
	"github.com/hyperjumptech/grule-rule-engine/pkg"
)

type replayC18Fact struct {
	A, B  int64
	S     string
	Flag  bool
	Fired bool
}

func replayC18Num(r *rand.Rand, d int, f *replayC18Fact) (interface{}, int64) {
	if d == 0 || r.Intn(3) == 0 {
		switch r.Intn(3) {
		case 0:
			return map[string]interface{}{"obj": "F.A"}, f.A
		case 1:
			return map[string]interface{}{"obj": "F.B"}, f.B
		default:
			c := int64(r.Intn(7))
			if r.Intn(2) == 0 {
				return float64(c), c
			}
			return map[string]interface{}{"const": float64(c)}, c
		}
	}
	l, lv := replayC18Num(r, d-1, f)
	if r.Intn(5) == 0 {
		// integer-only operators with a bare JSON number of seven digits: it must stay an integer literal
		big := []int64{1000000, 2500000, 16777217}[r.Intn(3)]
		if r.Intn(2) == 0 {
			return map[string]interface{}{"mod": []interface{}{map[string]interface{}{"plus": []interface{}{l, float64(big + 3)}}, float64(big)}}, (lv + big + 3) % big
		}
		return map[string]interface{}{"band": []interface{}{l, float64(big)}}, lv & big
	}
	rr, rv := replayC18Num(r, d-1, f)
	switch r.Intn(3) {
	case 0:
		return map[string]interface{}{"plus": []interface{}{l, rr}}, lv + rv
	case 1:
		return map[string]interface{}{"minus": []interface{}{l, rr}}, lv - rv
	default:
		return map[string]interface{}{"mul": []interface{}{l, rr}}, lv * rv
	}
}

func replayC18Bool(r *rand.Rand, d int, f *replayC18Fact) (interface{}, bool) {
	if r.Intn(6) == 0 {
		// a boolean fact as a plain GRL string or wrapped in obj
		if r.Intn(2) == 0 {
			return "F.Flag", f.Flag
		}
		return map[string]interface{}{"obj": "F.Flag"}, f.Flag
	}
	if d > 0 && r.Intn(6) == 0 {
		// `not` between two boolean operands is the documented != operator: operands grouped as nested, not negated
		s1, v1 := replayC18Bool(r, d-1, f)
		s2, v2 := replayC18Bool(r, d-1, f)
		return map[string]interface{}{"not": []interface{}{s1, s2}}, v1 != v2
	}
	if d == 0 || r.Intn(3) == 0 {
		l, lv := replayC18Num(r, 2, f)
		rr, rv := replayC18Num(r, 2, f)
		ops := []string{"eq", "not", "gt", "gte", "lt", "lte"}
		op := ops[r.Intn(len(ops))]
		res := map[string]bool{"eq": lv == rv, "not": lv != rv, "gt": lv > rv, "gte": lv >= rv, "lt": lv < rv, "lte": lv <= rv}[op]
		return map[string]interface{}{op: []interface{}{l, rr}}, res
	}
	if r.Intn(5) == 0 {
		// `not` with a single operand - an operator object, a plain string or an obj - is its logical negation
		s, v := replayC18Bool(r, d-1, f)
		return map[string]interface{}{"not": []interface{}{s}}, !v
	}
	n := 2 + r.Intn(2)
	var subs []interface{}
	and := r.Intn(2) == 0
	acc := and
	for i := 0; i < n; i++ {
		s, v := replayC18Bool(r, d-1, f)
		if str, isStr := s.(string); isStr {
			s = map[string]interface{}{"obj": str} // and/or take operator objects only
		}
		subs = append(subs, s)
		if and {
			acc = acc && v
		} else {
			acc = acc || v
		}
	}
	if and {
		return map[string]interface{}{"and": subs}, acc
	}
	return map[string]interface{}{"or": subs}, acc
}

func replayC18Run(rule map[string]interface{}, f replayC18Fact) (replayC18Fact, string, error) {
	js, _ := json.Marshal(rule)
	grl, err := pkg.ParseJSONRule(js)
	if err != nil {
		return f, "", fmt.Errorf("translate: %w", err)
	}
	lib := ast.NewKnowledgeLibrary()
	if err := builder.NewRuleBuilder(lib).BuildRuleFromResource("K", "1", pkg.NewBytesResource([]byte(grl))); err != nil {
		return f, grl, fmt.Errorf("build: %w", err)
	}
	kb, err := lib.NewKnowledgeBaseInstance("K", "1")
	if err != nil {
		return f, grl, fmt.Errorf("instance: %w", err)
	}
	d := ast.NewDataContext()
	d.Add("F", &f)
	e := NewGruleEngine()
	e.MaxCycle = 5
	err = e.Execute(d, kb)
	return f, grl, err
}

func TestReplaySearchJSONMeaning(t *testing.T) {
	r := rand.New(rand.NewSource(18))
	for n := 0; n < 1200; n++ {
		f := replayC18Fact{A: int64(r.Intn(9) - 2), B: int64(r.Intn(9) - 2), Flag: r.Intn(2) == 0}
		when, want := replayC18Bool(r, 2, &f)
		if _, isStr := when.(string); isStr {
			continue // a bare string is not a JSON operator tree
		}
		rule := map[string]interface{}{"name": "R", "desc": "d", "salience": 3, "when": when,
			"then": []interface{}{map[string]interface{}{"set": []interface{}{map[string]interface{}{"obj": "F.Fired"}, map[string]interface{}{"const": true}}}, `Retract("R")`}}
		got, grl, err := replayC18Run(rule, f)
		js, _ := json.Marshal(when)
		if err != nil {
			t.Fatalf("CONFIRMED: translated JSON rule is not accepted/executable: %v\nwhen: %s\nGRL: %s", err, js, grl)
		}
		if got.Fired != want {
			t.Fatalf("CONFIRMED: the GRL produced from the JSON tree does not mean the same: direct evaluation %v, rule fired %v (A=%d B=%d)\nwhen: %s\nGRL: %s", want, got.Fired, f.A, f.B, js, grl)
		}
	}
	// string constants round-trip whatever they contain
	for _, s := range []string{`plain`, `with "quotes"`, `back\slash`, "new\nline", `semi;colon`, `par)en`, `'single'`, ``, `tab	x`, `üñí`} {
		f := replayC18Fact{S: s}
		rule := map[string]interface{}{"name": "R", "desc": `a "d" \ ` + s, "salience": 1,
			"when": map[string]interface{}{"eq": []interface{}{map[string]interface{}{"obj": "F.S"}, map[string]interface{}{"const": s}}},
			"then": []interface{}{map[string]interface{}{"set": []interface{}{map[string]interface{}{"obj": "F.Fired"}, map[string]interface{}{"const": true}}}, `Retract("R")`}}
		got, grl, err := replayC18Run(rule, f)
		if err != nil || !got.Fired {
			t.Fatalf("CONFIRMED: string constant %q does not round-trip through the JSON translation (err=%v fired=%v)\nGRL: %s", s, err, got.Fired, grl)
		}
	}
}

// name, description and salience of the built rule are those of the JSON rule (its own harness: it demonstrates an open
// finding for descriptions that need escaping and must not mask the searches above)
func TestReplaySearchJSONDescription(t *testing.T) {
	for _, desc := range []string{`plain`, ``, `semi;colon and {braces}`, `üñí`, `'single'`, `the "speed"`, `back\slash`, "new\nline"} {
		for _, sal := range []int{0, 7, -3, 2147483647, -2147483648} {
			rule := map[string]interface{}{"name": "R", "desc": desc, "salience": sal,
				"when": map[string]interface{}{"eq": []interface{}{map[string]interface{}{"obj": "F.A"}, map[string]interface{}{"const": float64(0)}}},
				"then": []interface{}{`Retract("R")`}}
			js, _ := json.Marshal(rule)
			grl, err := pkg.ParseJSONRule(js)
			if err != nil {
				t.Fatalf("CONFIRMED: JSON rule with description %q salience %d is not translated: %v", desc, sal, err)
			}
			lib := ast.NewKnowledgeLibrary()
			if err := builder.NewRuleBuilder(lib).BuildRuleFromResource("K", "1", pkg.NewBytesResource([]byte(grl))); err != nil {
				t.Fatalf("CONFIRMED: the GRL produced for description %q salience %d is not accepted: %v\nGRL: %s", desc, sal, err, grl)
			}
			re, ok := lib.GetKnowledgeBase("K", "1").RuleEntries["R"]
			if !ok {
				t.Fatalf("CONFIRMED: the built knowledge base has no rule R\nGRL: %s", grl)
			}
			if re.Salience != sal {
				t.Fatalf("CONFIRMED: salience %d of the JSON rule comes back as %d\nGRL: %s", sal, re.Salience, grl)
			}
			if re.RuleDescription != desc {
				t.Fatalf("CONFIRMED: description of the JSON rule does not come back equal: JSON %q, built rule %q\nGRL: %s", desc, re.RuleDescription, grl)
			}
		}
	}
}

// "Any time a condition object is expected by the parser, the user can choose to instead provide a constant string or numeric
// value which will be interpreted ... as raw input" (docs/en/GRL_JSON_en.md): raw operands under every operator, also and / or
// (its own harness: it demonstrates an open finding and must not mask the searches above)
func TestReplaySearchJSONRawOperands(t *testing.T) {
	var bad []string
	for _, op := range []string{"and", "or", "eq", "not", "gt", "gte", "lt", "lte"} {
		var when map[string]interface{}
		want := false
		f := replayC18Fact{A: 3, B: 1, Flag: true}
		switch op {
		case "and":
			when, want = map[string]interface{}{op: []interface{}{"F.A > 1", map[string]interface{}{"eq": []interface{}{"F.B", float64(1)}}}}, true
		case "or":
			when, want = map[string]interface{}{op: []interface{}{"F.A > 5", map[string]interface{}{"eq": []interface{}{"F.B", float64(1)}}}}, true
		case "eq":
			when, want = map[string]interface{}{op: []interface{}{"F.A", float64(3)}}, true
		case "not":
			when, want = map[string]interface{}{op: []interface{}{"F.A", float64(4)}}, true
		case "gt":
			when, want = map[string]interface{}{op: []interface{}{"F.A", "F.B"}}, true
		case "gte":
			when, want = map[string]interface{}{op: []interface{}{"F.A", float64(3)}}, true
		case "lt":
			when, want = map[string]interface{}{op: []interface{}{"F.B", "F.A"}}, true
		default:
			when, want = map[string]interface{}{op: []interface{}{float64(1), "F.B"}}, true
		}
		rule := map[string]interface{}{"name": "R", "desc": "d", "salience": 3, "when": when,
			"then": []interface{}{map[string]interface{}{"set": []interface{}{map[string]interface{}{"obj": "F.Fired"}, map[string]interface{}{"const": true}}}, `Retract("R")`}}
		got, _, err := replayC18Run(rule, f)
		if err != nil || got.Fired != want {
			js, _ := json.Marshal(when)
			bad = append(bad, fmt.Sprintf("%s (err=%v fired=%v)", js, err, got.Fired))
		}
	}
	if len(bad) > 0 {
		t.Fatalf("CONFIRMED: %d condition(s) with documented raw (plain string / number) operands are not translated with the same meaning: %s", len(bad), strings.Join(bad, " ; "))
	}
}

package engine

// Bounded concrete search for C15 / C02 (obligation ExecuteWithContext#ensures.ctxseen / precancelled):
// a context whose Err() turns non-nil at its k-th call, k = 1..40, small rule sets. Property checked on the real engine:
// if any ctx.Err() observed during the run was non-nil, ExecuteWithContext must return an error wrapping it, and no rule
// action may START after the first non-nil observation.

import (
	"context"
	"errors"
	"fmt"
	"testing"
	"time"

	"github.com/hyperjumptech/grule-rule-engine/ast"
	"github.com/hyperjumptech/grule-rule-engine/builder"
	"github.com/hyperjumptech/grule-rule-engine/pkg"
)

type replayCountingCtx struct {
	calls, flipAt int
	seenAt        int
}

var errReplayCancelled = errors.New("replay: cancelled")

func (c *replayCountingCtx) Deadline() (time.Time, bool) { return time.Time{}, false }
func (c *replayCountingCtx) Done() <-chan struct{}       { return nil }
func (c *replayCountingCtx) Value(interface{}) interface{} { return nil }
func (c *replayCountingCtx) Err() error {
	c.calls++
	if c.calls >= c.flipAt {
		if c.seenAt == 0 {
			c.seenAt = c.calls
		}
		return errReplayCancelled
	}
	return nil
}

type replayFact struct {
	X, Y   int
	ctx    *replayCountingCtx
	lateAt []int
}

// Touch is called from rule actions: it records actions that start after cancellation was observed.
func (f *replayFact) Touch() {
	if f.ctx.seenAt != 0 {
		f.lateAt = append(f.lateAt, f.ctx.calls)
	}
}

func TestReplaySearchCtx(t *testing.T) {
	rulesets := []string{
		`rule R1 "one" salience 1 { when F.X < 3 then F.Touch(); F.X = F.X + 1; }`,
		`rule R1 "a" salience 2 { when F.X < 2 then F.Touch(); F.X = F.X + 1; }
		 rule R2 "b" salience 1 { when F.Y < 2 then F.Touch(); F.Y = F.Y + 1; }`,
		`rule R1 "a" salience 2 { when F.X < 1 then F.Touch(); F.X = F.X + 1; }
		 rule R2 "b" salience 1 { when F.Y < 1 then F.Touch(); F.Y = F.Y + 1; }
		 rule R3 "c" salience 0 { when F.X == 5 then F.Touch(); F.Y = 7; }`,
	}
	for ri, grl := range rulesets {
		lib := ast.NewKnowledgeLibrary()
		if err := builder.NewRuleBuilder(lib).BuildRuleFromResource("K", "1", pkg.NewBytesResource([]byte(grl))); err != nil {
			t.Fatalf("build: %v", err)
		}
		for k := 1; k <= 40; k++ {
			kb, err := lib.NewKnowledgeBaseInstance("K", "1")
			if err != nil {
				t.Fatal(err)
			}
			c := &replayCountingCtx{flipAt: k}
			f := &replayFact{ctx: c}
			dctx := ast.NewDataContext()
			dctx.Add("F", f)
			res := NewGruleEngine().ExecuteWithContext(c, dctx, kb)
			where := fmt.Sprintf("rule set #%d, context cancelled at its Err() call #%d (observed at call #%d of %d), final X=%d Y=%d", ri, k, c.seenAt, c.calls, f.X, f.Y)
			if c.seenAt != 0 && res == nil {
				t.Fatalf("CONFIRMED: ExecuteWithContext returned nil although the run observed the context's error: %s", where)
			}
			if c.seenAt != 0 && !errors.Is(res, errReplayCancelled) {
				t.Fatalf("CONFIRMED: ExecuteWithContext returned %q which does not wrap the context's error: %s", res, where)
			}
			if len(f.lateAt) > 0 {
				t.Fatalf("CONFIRMED: a rule action started after cancellation had been observed (at Err() calls %v): %s", f.lateAt, where)
			}
		}
	}
}

// ---- cancellation INSIDE a condition or an action (obligation ExecuteWithContext#ensures.nilmeanslive) ----
// A real cancellable context; the fact's methods C() (used in conditions) and A() (first/last statement of actions) count
// their calls and cancel the context at the n-th call, n = 1..all. Property: once the context is cancelled during the run,
// ExecuteWithContext returns an error wrapping context.Canceled - wherever the cancellation fell, also inside the last
// condition of the final cycle or inside an action that calls Complete() - and no action STARTS after the cancellation.

type replayInsideFact struct {
	X, Y      int
	calls     int
	cancelAt  int
	cancel    func()
	cancelled bool
	late      []int
}

func (f *replayInsideFact) tick() {
	f.calls++
	if f.calls == f.cancelAt {
		f.cancel()
		f.cancelled = true
	}
}

// C is used inside conditions.
func (f *replayInsideFact) C() bool { f.tick(); return true }

// A is the first statement of an action: an action that starts after the cancellation is recorded.
func (f *replayInsideFact) A() {
	if f.cancelled {
		f.late = append(f.late, f.calls+1)
	}
	f.tick()
}

// Z is a later statement of an action (the action is already running: not a late start).
func (f *replayInsideFact) Z() { f.tick() }

func TestReplaySearchCtxInside(t *testing.T) {
	rulesets := []string{
		`rule R1 "one" { when F.C() && F.X < 2 then F.A(); F.X = F.X + 1; }`,
		`rule R1 "one" { when F.C() && F.X < 1 then F.A(); F.X = F.X + 1; F.Z(); }`,
		`rule R1 "done" { when F.C() && F.X < 1 then F.A(); F.X = F.X + 1; F.Z(); Complete(); }`,
		`rule R1 "a" salience 2 { when F.C() && F.X < 1 then F.A(); F.X = F.X + 1; }
		 rule R2 "b" salience 1 { when F.C() && F.Y < 1 then F.A(); F.Y = F.Y + 1; F.Z(); Complete(); }`,
		`rule R1 "never" { when F.C() && F.X > 5 then F.A(); F.X = 0; }`,
		`rule R1 "a" salience 2 { when F.X < 1 && F.C() then F.A(); F.X = F.X + 1; }
		 rule R2 "never" salience 1 { when F.C() && F.Y > 5 then F.A(); F.Y = 0; }`,
	}
	for ri, grl := range rulesets {
		lib := ast.NewKnowledgeLibrary()
		if err := builder.NewRuleBuilder(lib).BuildRuleFromResource("K", "1", pkg.NewBytesResource([]byte(grl))); err != nil {
			t.Fatalf("build: %v", err)
		}
		total := 1
		for n := 0; n <= total; n++ {
			kb, err := lib.NewKnowledgeBaseInstance("K", "1")
			if err != nil {
				t.Fatal(err)
			}
			ctx, cancel := context.WithCancel(context.Background())
			f := &replayInsideFact{cancelAt: n, cancel: cancel}
			dctx := ast.NewDataContext()
			dctx.Add("F", f)
			e := NewGruleEngine()
			e.MaxCycle = 20
			res := e.ExecuteWithContext(ctx, dctx, kb)
			cancel()
			if n == 0 {
				if res != nil {
					t.Fatalf("rule set #%d does not run to its end without cancellation: %v", ri, res)
				}
				total = f.calls // how many cancellation points the run has
				continue
			}
			where := fmt.Sprintf("rule set #%d, context cancelled inside fact-method call #%d of the run (%d calls made, final X=%d Y=%d): %s", ri, n, f.calls, f.X, f.Y, grl)
			if f.cancelled && res == nil {
				t.Fatalf("CONFIRMED: ExecuteWithContext returned nil although the context was cancelled during the run: %s", where)
			}
			if f.cancelled && !errors.Is(res, context.Canceled) {
				t.Fatalf("CONFIRMED: ExecuteWithContext returned %q which does not wrap the context's error: %s", res, where)
			}
			if len(f.late) > 0 {
				t.Fatalf("CONFIRMED: a rule action started after the context had been cancelled (fact-method calls %v): %s", f.late, where)
			}
		}
	}
}

package engine

// Bounded concrete search for C15 / C02 (obligation ExecuteWithContext#ensures.ctxseen / precancelled):
// a context whose Err() turns non-nil at its k-th call, k = 1..40, small rule sets. Property checked on the real engine:
// if any ctx.Err() observed during the run was non-nil, ExecuteWithContext must return an error wrapping it, and no rule
// action may START after the first non-nil observation.

import (
	_ "context"
	"errors"
	"fmt"
	"testing"
	"time"

	"github.com/hyperjumptech/grule-rule-engine/ast"
	"github.com/hyperjumptech/grule-rule-engine/builder"
	"github.com/hyperjumptech/grule-rule-engine/pkg"
)

type replayCountingCtx struct {
	calls, flipAt int
	seenAt        int
}

var errReplayCancelled = errors.New("replay: cancelled")

func (c *replayCountingCtx) Deadline() (time.Time, bool) { return time.Time{}, false }
func (c *replayCountingCtx) Done() <-chan struct{}       { return nil }
func (c *replayCountingCtx) Value(interface{}) interface{} { return nil }
func (c *replayCountingCtx) Err() error {
	c.calls++
	if c.calls >= c.flipAt {
		if c.seenAt == 0 {
			c.seenAt = c.calls
		}
		return errReplayCancelled
	}
	return nil
}

type replayFact struct {
	X, Y   int
	ctx    *replayCountingCtx
	lateAt []int
}

// Touch is called from rule actions: it records actions that start after cancellation was observed.
func (f *replayFact) Touch() {
	if f.ctx.seenAt != 0 {
		f.lateAt = append(f.lateAt, f.ctx.calls)
	}
}

func TestReplaySearchCtx(t *testing.T) {
	rulesets := []string{
		`rule R1 "one" salience 1 { when F.X < 3 then F.Touch(); F.X = F.X + 1; }`,
		`rule R1 "a" salience 2 { when F.X < 2 then F.Touch(); F.X = F.X + 1; }
		 rule R2 "b" salience 1 { when F.Y < 2 then F.Touch(); F.Y = F.Y + 1; }`,
		`rule R1 "a" salience 2 { when F.X < 1 then F.Touch(); F.X = F.X + 1; }
		 rule R2 "b" salience 1 { when F.Y < 1 then F.Touch(); F.Y = F.Y + 1; }
		 rule R3 "c" salience 0 { when F.X == 5 then F.Touch(); F.Y = 7; }`,
	}
	for ri, grl := range rulesets {
		lib := ast.NewKnowledgeLibrary()
		if err := builder.NewRuleBuilder(lib).BuildRuleFromResource("K", "1", pkg.NewBytesResource([]byte(grl))); err != nil {
			t.Fatalf("build: %v", err)
		}
		for k := 1; k <= 40; k++ {
			kb, err := lib.NewKnowledgeBaseInstance("K", "1")
			if err != nil {
				t.Fatal(err)
			}
			c := &replayCountingCtx{flipAt: k}
			f := &replayFact{ctx: c}
			dctx := ast.NewDataContext()
			dctx.Add("F", f)
			res := NewGruleEngine().ExecuteWithContext(c, dctx, kb)
			where := fmt.Sprintf("rule set #%d, context cancelled at its Err() call #%d (observed at call #%d of %d), final X=%d Y=%d", ri, k, c.seenAt, c.calls, f.X, f.Y)
			if c.seenAt != 0 && res == nil {
				t.Fatalf("CONFIRMED: ExecuteWithContext returned nil although the run observed the context's error: %s", where)
			}
			if c.seenAt != 0 && !errors.Is(res, errReplayCancelled) {
				t.Fatalf("CONFIRMED: ExecuteWithContext returned %q which does not wrap the context's error: %s", res, where)
			}
			if len(f.lateAt) > 0 {
				t.Fatalf("CONFIRMED: a rule action started after cancellation had been observed (at Err() calls %v): %s", f.lateAt, where)
			}
		}
	}
}

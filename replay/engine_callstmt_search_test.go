package engine

// Bounded concrete search for C04 / C10 (obligations callruns / callinvoked of ThenExpression.Execute and ExpressionAtom.Evaluate):
// a CALL used as an action statement runs every time its action list runs - when its rule fires again in the same Execute, when
// another rule shares the statement text, when the same text also occurs in a condition, with and without arguments, directly on a
// fact and at the end of a chain. An independent count of the rule's firings (a counter field the rule assigns) is the oracle.

import (
	"fmt"
	"testing"

	"github.com/hyperjumptech/grule-rule-engine/ast"
	"github.com/hyperjumptech/grule-rule-engine/builder"
	"github.com/hyperjumptech/grule-rule-engine/pkg"
)

type replayCallInner struct{ Calls int64 }

func (c *replayCallInner) Touch() { c.Calls++ }

type replayCallFact struct {
	A, B  int64
	Calls int64
	Sum   int64
	In    *replayCallInner
}

func (f *replayCallFact) Touch()                  { f.Calls++ }
func (f *replayCallFact) Add(n int64)             { f.Calls++; f.Sum += n }
func (f *replayCallFact) Inner() *replayCallInner { return f.In }
func (f *replayCallFact) Yes() bool               { f.Calls++; return true }

func TestReplaySearchCallStatementRuns(t *testing.T) {
	cases := []struct {
		name, grl string
		want      func(f *replayCallFact) (got, want int64)
	}{
		{"method without arguments, rule fires three times", `rule R "r" { when F.A < 3 then F.Touch(); F.A = F.A + 1; }`,
			func(f *replayCallFact) (int64, int64) { return f.Calls, f.A }},
		{"method with a constant argument, rule fires three times", `rule R "r" { when F.A < 3 then F.Add(2); F.A = F.A + 1; }`,
			func(f *replayCallFact) (int64, int64) { return f.Sum, 2 * f.A }},
		{"statement shared by two rules", `rule R1 "r" salience 2 { when F.A < 1 then F.Touch(); F.A = F.A + 1; } rule R2 "r" salience 1 { when F.B < 1 then F.Touch(); F.B = F.B + 1; }`,
			func(f *replayCallFact) (int64, int64) { return f.Calls, f.A + f.B }},
		{"call at the end of a chain", `rule R "r" { when F.A < 3 then F.Inner().Touch(); F.A = F.A + 1; }`,
			func(f *replayCallFact) (int64, int64) { return f.In.Calls, f.A }},
		{"call after Complete() still runs", `rule R1 "r" salience 2 { when F.A < 1 then F.Touch(); F.A = F.A + 1; } rule R2 "r" salience 1 { when F.B < 1 then F.B = F.B + 1; Complete(); F.Touch(); }`,
			func(f *replayCallFact) (int64, int64) { return f.Calls, f.A + f.B }},
	}
	for _, c := range cases {
		lib := ast.NewKnowledgeLibrary()
		if err := builder.NewRuleBuilder(lib).BuildRuleFromResource("K", "1", pkg.NewBytesResource([]byte(c.grl))); err != nil {
			t.Fatalf("harness: %s does not build: %v", c.name, err)
		}
		kb, err := lib.NewKnowledgeBaseInstance("K", "1")
		if err != nil {
			t.Fatalf("harness: %v", err)
		}
		for run := 1; run <= 2; run++ { // a second Execute on the same instance with fresh facts (C08) must behave alike
			f := &replayCallFact{In: &replayCallInner{}}
			dc := ast.NewDataContext()
			if err := dc.Add("F", f); err != nil {
				t.Fatalf("harness: %v", err)
			}
			if err := NewGruleEngine().Execute(dc, kb); err != nil {
				t.Fatalf("harness: %s: Execute: %v", c.name, err)
			}
			if got, want := c.want(f); got != want {
				t.Fatalf("CONFIRMED: %s (%s), Execute #%d: the call statement took effect %d time(s)/unit(s) where the rule(s) fired for %d", c.name, c.grl, run, got, want)
			}
		}
	}
	_ = fmt.Sprint
}

package engine

// Bounded concrete search for the engine-trace properties C03 / C06 / C10 / C14 / C01 / C02 (obligations of ExecuteWithContext and
// notify*): a recording listener and an independent from-scratch oracle check every cycle of small rule sets over a boundary-rich
// set of saliences, fact states, MaxCycle values and failure injections. Prints "CONFIRMED: ..." on the first violated statement.

import (
	"context"
	"fmt"
	"strings"
	"testing"

	"github.com/hyperjumptech/grule-rule-engine/ast"
	"github.com/hyperjumptech/grule-rule-engine/builder"
	"github.com/hyperjumptech/grule-rule-engine/pkg"
)

type replayTraceFact struct {
	X, Y, Z int
	Arr     []int
	Log     []string
}

func (f *replayTraceFact) Note(s string) { f.Log = append(f.Log, s) }
func (f *replayTraceFact) Boom() bool   { panic("boom") }

type replayEv struct {
	kind  string
	cycle uint64
	rule  string
	cand  bool
}

type replayRecorder struct{ evs []replayEv }

func (r *replayRecorder) BeginCycle(_ context.Context, c uint64) {
	r.evs = append(r.evs, replayEv{"begin", c, "", false})
}
func (r *replayRecorder) EvaluateRuleEntry(_ context.Context, c uint64, e *ast.RuleEntry, cand bool) {
	r.evs = append(r.evs, replayEv{"eval", c, e.RuleName, cand})
}
func (r *replayRecorder) ExecuteRuleEntry(_ context.Context, c uint64, e *ast.RuleEntry) {
	r.evs = append(r.evs, replayEv{"exec", c, e.RuleName, false})
}

type replayRule struct {
	name     string
	salience int
	when     string
	then     string
	cond     func(f *replayTraceFact) (bool, bool) // (value, evaluates without error): independent oracle
}

func TestReplaySearchTrace(t *testing.T) {
	sal := []int{0, 1, -1, 10, 2000000000, -2000000000, 2147483647, -2147483648}
	type scenario struct {
		rules []replayRule
	}
	mk := func(s1, s2, s3 int) scenario {
		return scenario{[]replayRule{
			{"A", s1, "F.X < 2", `F.Note("A"); F.X = F.X + 1;`, func(f *replayTraceFact) (bool, bool) { return f.X < 2, true }},
			{"B", s2, "F.Y < 1", `F.Note("B"); F.Y = F.Y + 1;`, func(f *replayTraceFact) (bool, bool) { return f.Y < 1, true }},
			{"C", s3, "F.Arr[F.Z] == 7", `F.Note("C"); F.Z = 5;`, func(f *replayTraceFact) (bool, bool) {
				if f.Z < 0 || f.Z >= len(f.Arr) {
					return false, false
				}
				return f.Arr[f.Z] == 7, true
			}},
		}}
	}
	var scenarios []scenario
	for i := 0; i < len(sal); i++ {
		scenarios = append(scenarios, mk(sal[i], sal[(i+3)%len(sal)], sal[(i+5)%len(sal)]))
	}
	// retract / complete scenarios
	scenarios = append(scenarios, scenario{[]replayRule{
		{"A", 5, "F.X < 3", `F.Note("A"); F.X = F.X + 1; Retract("B");`, func(f *replayTraceFact) (bool, bool) { return f.X < 3, true }},
		{"B", 1, "F.Y < 9", `F.Note("B"); F.Y = F.Y + 1;`, func(f *replayTraceFact) (bool, bool) { return f.Y < 9, true }},
		{"C", 0, "F.X == 3 && F.Z == 0", `F.Note("C1"); Complete(); F.Z = 1; F.Note("C2");`, func(f *replayTraceFact) (bool, bool) { return f.X == 3 && f.Z == 0, true }},
	}})
	// failing action
	scenarios = append(scenarios, scenario{[]replayRule{
		{"A", 5, "F.X < 1", `F.Note("A"); F.X = F.X + 1;`, func(f *replayTraceFact) (bool, bool) { return f.X < 1, true }},
		{"P", 1, "F.X == 1", `F.Note("P1"); F.Y = 3; F.Boom(); F.Note("P2");`, func(f *replayTraceFact) (bool, bool) { return f.X == 1, true }},
		{"Q", 0, "F.Y == 3", `F.Note("Q");`, func(f *replayTraceFact) (bool, bool) { return f.Y == 3, true }},
	}})
	// panicking condition: the rule is skipped (or the error returned when strict), never a crash
	scenarios = append(scenarios, scenario{[]replayRule{
		{"A", 5, "F.X < 1", `F.Note("A"); F.X = F.X + 1;`, func(f *replayTraceFact) (bool, bool) { return f.X < 1, true }},
		{"W", 1, "F.Boom()", `F.Note("W");`, func(f *replayTraceFact) (bool, bool) { return false, false }},
	}})
	for si, sc := range scenarios {
		var grl strings.Builder
		for _, r := range sc.rules {
			fmt.Fprintf(&grl, "rule %s \"%s\" salience %d { when %s then %s }\n", r.name, r.name, r.salience, r.when, r.then)
		}
		lib := ast.NewKnowledgeLibrary()
		if err := builder.NewRuleBuilder(lib).BuildRuleFromResource("K", "1", pkg.NewBytesResource([]byte(grl.String()))); err != nil {
			t.Fatalf("build: %v\n%s", err, grl.String())
		}
		for _, maxCycle := range []uint64{0, 1, 2, 3, 50} {
			for _, arr := range [][]int{{7}, {1}, {}} {
				for _, strict := range []bool{false, true} {
					kb, err := lib.NewKnowledgeBaseInstance("K", "1")
					if err != nil {
						t.Fatal(err)
					}
					f := &replayTraceFact{Arr: arr}
					dctx := ast.NewDataContext()
					dctx.Add("F", f)
					rec := &replayRecorder{}
					e := &GruleEngine{MaxCycle: maxCycle, ReturnErrOnFailedRuleEvaluation: strict, Listeners: []GruleEngineListener{rec, rec}}
					var res error
					func() {
						defer func() {
							if r := recover(); r != nil {
								t.Fatalf("CONFIRMED: a panic (%v) escaped Execute instead of being turned into an error / a skipped rule\nscenario #%d MaxCycle=%d Arr=%v strict=%v rules:\n%s", r, si, maxCycle, arr, strict, grl.String())
							}
						}()
						res = e.Execute(dctx, kb)
					}()
					where := fmt.Sprintf("scenario #%d MaxCycle=%d Arr=%v strict=%v rules:\n%s trace=%v result=%v log=%v", si, maxCycle, arr, strict, grl.String(), rec.evs, res, f.Log)
					// a condition that fails to evaluate on the initial facts (error or panic): with ReturnErrOnFailedRuleEvaluation the
					// first cycle already returns an error naming the rule and nothing fires; without it the run goes on
					if strict {
						f0 := &replayTraceFact{Arr: arr}
						var failing []string
						for _, r := range sc.rules {
							if _, ok := r.cond(f0); !ok {
								failing = append(failing, r.name)
							}
						}
						if len(failing) > 0 {
							named := false
							for _, n := range failing {
								named = named || (res != nil && strings.Contains(res.Error(), n))
							}
							if res == nil || !named || len(f.Log) > 0 {
								t.Fatalf("CONFIRMED: the condition of rule %v fails to evaluate on the initial facts and ReturnErrOnFailedRuleEvaluation is set, but Execute returned %v (want an error naming the rule) after actions %v (want none)\n%s", failing, res, f.Log, where)
							}
						}
					}
					if msg := replayCheckTrace(sc.rules, rec.evs, res, maxCycle, strict, f); msg != "" {
						t.Fatalf("CONFIRMED: %s\n%s", msg, where)
					}
				}
			}
		}
	}
}

// replayCheckTrace re-derives, from the listener trace alone (each event is delivered twice: two registrations), what the
// properties demand. The fact state at each cycle is reconstructed by replaying the rule bodies' known effects.
func replayCheckTrace(rules []replayRule, evs []replayEv, res error, maxCycle uint64, strict bool, final *replayTraceFact) string {
	// every event must come twice in a row (two registered listeners, same arguments)
	var single []replayEv
	if len(evs)%2 != 0 {
		return "listeners did not each receive every event exactly once"
	}
	for i := 0; i < len(evs); i += 2 {
		if evs[i] != evs[i+1] {
			return fmt.Sprintf("the two registered listeners saw different events at position %d", i)
		}
		single = append(single, evs[i])
	}
	byName := map[string]replayRule{}
	for _, r := range rules {
		byName[r.name] = r
	}
	execs := 0
	var cycle uint64
	i := 0
	for i < len(single) {
		if single[i].kind != "begin" {
			return fmt.Sprintf("event %d: expected BeginCycle", i)
		}
		cycle++
		if single[i].cycle != cycle {
			return fmt.Sprintf("cycles are not numbered consecutively from 1: got %d, want %d", single[i].cycle, cycle)
		}
		i++
		seen := map[string]bool{}
		cands := map[string]bool{}
		for i < len(single) && single[i].kind == "eval" {
			ev := single[i]
			if ev.cycle != cycle {
				return fmt.Sprintf("evaluation of %s reported under cycle %d inside cycle %d", ev.rule, ev.cycle, cycle)
			}
			if seen[ev.rule] {
				return fmt.Sprintf("cycle %d: rule %s reported twice", cycle, ev.rule)
			}
			seen[ev.rule] = true
			if ev.cand {
				cands[ev.rule] = true
			}
			i++
		}
		if i < len(single) && single[i].kind == "exec" {
			ev := single[i]
			execs++
			if ev.cycle != cycle {
				return fmt.Sprintf("execution of %s reported under cycle %d inside cycle %d", ev.rule, ev.cycle, cycle)
			}
			if !cands[ev.rule] {
				return fmt.Sprintf("cycle %d: %s executed but it was not reported as candidate in this cycle", cycle, ev.rule)
			}
			for c := range cands {
				if byName[c].salience > byName[ev.rule].salience {
					return fmt.Sprintf("cycle %d: %s (salience %d) fired although candidate %s has salience %d", cycle, ev.rule, byName[ev.rule].salience, c, byName[c].salience)
				}
			}
			i++
			if i < len(single) && single[i].kind == "exec" {
				return fmt.Sprintf("cycle %d: two executions", cycle)
			}
		} else if len(cands) > 0 && res == nil {
			return fmt.Sprintf("cycle %d: candidates %v but nothing fired and Execute returned nil", cycle, cands)
		}
	}
	if uint64(execs) > maxCycle {
		return fmt.Sprintf("%d firings with MaxCycle=%d", execs, maxCycle)
	}
	// quiescence: when nil is returned without Complete (scenario C1 marks completion), no rule's condition holds on the final facts
	completed := false
	for _, l := range final.Log {
		if l == "C1" {
			completed = true
		}
	}
	if res == nil && !completed {
		for _, r := range rules {
			if v, ok := r.cond(final); ok && v {
				retracted := false
				for _, l := range final.Log {
					if l == "A" && r.name == "B" && len(rules) == 3 && rules[0].then != "" && strings.Contains(rules[0].then, "Retract(\"B\")") {
						retracted = true
					}
				}
				if !retracted {
					return fmt.Sprintf("Execute returned nil but rule %s is satisfied on the final facts %+v", r.name, *final)
				}
			}
		}
	}
	if completed {
		// remaining actions of the completing rule still ran, and nothing ran afterwards
		n := len(final.Log)
		if n < 2 || final.Log[n-2] != "C1" || final.Log[n-1] != "C2" || res != nil {
			return fmt.Sprintf("Complete(): expected the rule's remaining actions to run and Execute to return nil right after; log=%v result=%v", final.Log, res)
		}
		if len(single) > 0 && single[len(single)-1].kind != "exec" {
			return "after Complete() the engine still evaluated or notified"
		}
	}
	// a retracted rule is never evaluated again
	retractedAt := -1
	for k, ev := range single {
		if ev.kind == "exec" && strings.Contains(byName[ev.rule].then, "Retract(\"B\")") && retractedAt < 0 {
			retractedAt = k
		}
		if retractedAt >= 0 && k > retractedAt && ev.kind != "begin" && ev.rule == "B" {
			return "rule B was evaluated or fired after Retract(\"B\")"
		}
	}
	// failing action: error naming the rule, earlier effects kept, nothing afterwards
	for k, l := range final.Log {
		if l == "P1" {
			if res == nil || !strings.Contains(res.Error(), "P") {
				return fmt.Sprintf("action of rule P panicked but Execute returned %v", res)
			}
			if final.Y != 3 {
				return "effects of the actions completed before the failing one were not kept"
			}
			if k != len(final.Log)-1 {
				return fmt.Sprintf("actions ran after the failing action: %v", final.Log[k+1:])
			}
		}
	}
	return ""
}

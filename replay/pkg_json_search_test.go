package pkg

// Bounded concrete search for C20/C18 (JSON rule loader): no input may make the loader panic; malformed rules are rejected.

import (
	"fmt"
	"testing"
)

func replayJSONLoad(in string) (out string, err error, panicked interface{}) {
	defer func() {
		if r := recover(); r != nil {
			panicked = r
		}
	}()
	res, rerr := NewJSONResourceFromResource(NewBytesResource([]byte(in)))
	if rerr != nil {
		return "", rerr, nil
	}
	b, lerr := res.Load()
	return string(b), lerr, nil
}

func TestReplaySearchJSONLoader(t *testing.T) {
	frags := []string{``, ` `, "\n\t ", `[`, `{`, `]`, `}`, `[]`, `{}`, `[null]`, `null`, `[{}]`, `[{},null]`, `"x"`, `1`, `[1]`, `[[ ]]`,
		`{"name":"R"}`, `{"name":"R","when":null,"then":null}`, `{"name":"R","when":"a","then":null}`, `{"name":"R","when":"a","then":[]}`,
		`{"name":"R","when":"a","then":[null]}`, `{"name":"R","when":"a","then":[1]}`, `{"name":"R","when":{},"then":["x"]}`,
		`{"name":"R","when":{"and":null},"then":["x"]}`, `{"name":"R","when":{"and":[]},"then":["x"]}`, `{"name":"R","when":{"and":[null,null]},"then":["x"]}`,
		`{"name":"R","when":{"eq":[]},"then":["x"]}`, `{"name":"R","when":{"eq":[null]},"then":["x"]}`, `{"name":"R","when":{"eq":[{"const":null},1]},"then":["x"]}`,
		`{"name":"R","when":{"xx":[1,2]},"then":["x"]}`, `{"name":"R","when":{"eq":[1,2],"gt":[1,2]},"then":["x"]}`,
		`{"name":"R","when":"a","then":[{"set":[1]}]}`, `{"name":"R","when":"a","then":[{"set":null}]}`, `{"name":"R","when":"a","then":[{"call":[]}]}`,
		`{"name":"R","when":"a","then":[{"call":[1]}]}`, `{"name":"R","when":"a","then":[{"call":["f",null]}]}`, `{"name":"R","when":"a","then":[{"call":["f",{"obj":1}]}]}`,
		`{"name":"","when":"a","then":["x"]}`, `{"when":"a","then":["x"]}`, `[{"name":"R","when":"a","then":["x"]},null]`,
	}
	for _, in := range frags {
		_, _, p := replayJSONLoad(in)
		if p != nil {
			t.Fatalf("CONFIRMED: the JSON rule loader panicked (%v) on input %q", p, in)
		}
	}
	mustReject := []string{``, ` `, `{"when":"a","then":["x"]}`, `{"name":"","when":"a","then":["x"]}`, `{"name":"R","then":["x"]}`, `{"name":"R","when":"a"}`,
		`{"name":"R","when":{"xx":[1,2]},"then":["x"]}`, `{"name":"R","when":{"eq":[1,2],"gt":[1,2]},"then":["x"]}`, `{"name":"R","when":{"and":[{"eq":[1,2]}]},"then":["x"]}`,
		`{"name":"R","when":"a","then":[{"set":[1]}]}`, `{"name":"R","when":"a","then":[{"set":[1,2,3]}]}`, `{"name":"R","when":"a","then":[{"call":[]}]}`, `{"name":"R","when":{"eq":[]},"then":["x"]}`}
	for _, in := range mustReject {
		out, err, p := replayJSONLoad(in)
		if p == nil && err == nil {
			t.Fatalf("CONFIRMED: malformed JSON rule accepted without error: %q -> %s", in, fmt.Sprintf("%q", out))
		}
	}
}

package engine

// Bounded concrete search for C01 / C02 / C13 (memo invalidation obligations of Variable.Assign, ResetVariable, IndexVariables,
// Reset): counting rules over every addressable path shape. Each rule "when P < 3 then P = P + 1" must fire exactly three
// times and leave P == 3; a remembered condition value makes it loop to the cycle limit (stale true) or stop early (stale false).

import (
	"fmt"
	"strings"
	"testing"

	"github.com/hyperjumptech/grule-rule-engine/ast"
	"github.com/hyperjumptech/grule-rule-engine/builder"
	"github.com/hyperjumptech/grule-rule-engine/pkg"
)

type replayMemoInner struct{ V int }
type replayMemoFact struct {
	A     int
	In    *replayMemoInner
	Arr   []int
	M     map[string]int64
	Calls int
}

func (f *replayMemoFact) Get() int { f.Calls++; return f.A }

type replayMemoOpsFact struct {
	Calls, A int
	Tags     map[string]string
	S        string
	X        float64
}

func TestReplaySearchMemo(t *testing.T) {
	paths := []struct{ name, path string }{
		{"top-level variable", "N"},
		{"struct field", "F.A"},
		{"nested field behind a pointer", "F.In.V"},
		{"slice element", "F.Arr[1]"},
		{"map entry", `F.M["k"]`},
	}
	for _, p := range paths {
		for _, form := range []string{"%s = %s + 1;", "%s += 1;"} {
			then := fmt.Sprintf(form, p.path, p.path)
			if form == "%s += 1;" {
				then = fmt.Sprintf(form, p.path)
			}
			grl := fmt.Sprintf("rule Count \"c\" { when %s < 3 then %s }\nrule Other \"o\" salience -1 { when %s == 3 && F.Calls == 0 then F.Calls = 100; }", p.path, then, p.path)
			lib := ast.NewKnowledgeLibrary()
			if err := builder.NewRuleBuilder(lib).BuildRuleFromResource("K", "1", pkg.NewBytesResource([]byte(grl))); err != nil {
				t.Fatalf("build %s: %v", grl, err)
			}
			kb, err := lib.NewKnowledgeBaseInstance("K", "1")
			if err != nil {
				t.Fatal(err)
			}
			f := &replayMemoFact{In: &replayMemoInner{}, Arr: []int{0, 0}, M: map[string]int64{"k": 0}}
			d := ast.NewDataContext()
			d.Add("F", f)
			d.Add("N", 0)
			e := NewGruleEngine()
			e.MaxCycle = 30
			res := e.Execute(d, kb)
			var got int64
			switch p.path {
			case "N":
				got = d.Get("N").Value().Int()
			case "F.A":
				got = int64(f.A)
			case "F.In.V":
				got = int64(f.In.V)
			case "F.Arr[1]":
				got = int64(f.Arr[1])
			default:
				got = int64(f.M["k"])
			}
			if res != nil || got != 3 || f.Calls != 100 {
				t.Fatalf("CONFIRMED: %s, rules:\n%s\nfinal value %d (want 3), second rule fired=%v (want true), Execute returned %v: a remembered condition value survived the assignment", p.name, grl, got, f.Calls == 100, res)
			}
		}
	}
	// remembered values below an operator applied to the variable itself: negation of a top-level flag, a string method on a
	// map element, and the five assignment forms on a string and a float (each must fire once / compute per its own text)
	{
		grl := `rule Flip "f" { when !Done then Done = true; F.Calls = F.Calls + 1; }
rule Tag "t" { when F.Tags["state"].HasPrefix("op") then F.Tags["state"] = "closed"; F.A = F.A + 1; }
rule Str "s" salience -1 { when F.S == "a" then F.S += "b"; F.S += "c"; F.X = 8.0; F.X -= 2; F.X *= 3; F.X /= 4; }`
		lib := ast.NewKnowledgeLibrary()
		if err := builder.NewRuleBuilder(lib).BuildRuleFromResource("K", "1", pkg.NewBytesResource([]byte(grl))); err != nil {
			t.Fatalf("build %s: %v", grl, err)
		}
		kb, err := lib.NewKnowledgeBaseInstance("K", "1")
		if err != nil {
			t.Fatal(err)
		}
		f := &replayMemoOpsFact{Tags: map[string]string{"state": "open"}, S: "a"}
		d := ast.NewDataContext()
		d.Add("F", f)
		d.Add("Done", false)
		e := NewGruleEngine()
		e.MaxCycle = 12
		res := e.Execute(d, kb)
		if res != nil || f.Calls != 1 || f.A != 1 || f.S != "abc" || f.X != 4.5 {
			t.Fatalf("CONFIRMED: rules\n%s\nend with Calls=%d (want 1), A=%d (want 1), S=%q (want \"abc\"), X=%v (want 4.5), Execute returned %v", grl, f.Calls, f.A, f.S, f.X, res)
		}
	}

}

// The same location reached through two different selector expressions (its own harness: it demonstrates an open finding and
// must not mask the search above): the condition reads F.M[F.K] / F.Arr[F.I], the action writes F.M["k"] / F.Arr[1].
type replayAliasFact struct {
	K   string
	I   int64
	M   map[string]int64
	Arr []int64
}

func TestReplaySearchAlias(t *testing.T) {
	var bad []string
	for _, sc := range []struct{ name, read, write string }{
		{"map entry", `F.M[F.K]`, `F.M["k"]`},
		{"slice element", `F.Arr[F.I]`, `F.Arr[1]`},
		{"map entry, literal read and computed write", `F.M["k"]`, `F.M[F.K]`},
	} {
		grl := fmt.Sprintf("rule Count \"c\" { when %s < 3 then %s = %s + 1; }", sc.read, sc.write, sc.write)
		lib := ast.NewKnowledgeLibrary()
		if err := builder.NewRuleBuilder(lib).BuildRuleFromResource("K", "1", pkg.NewBytesResource([]byte(grl))); err != nil {
			t.Fatalf("build %s: %v", grl, err)
		}
		kb, err := lib.NewKnowledgeBaseInstance("K", "1")
		if err != nil {
			t.Fatal(err)
		}
		f := &replayAliasFact{K: "k", I: 1, M: map[string]int64{"k": 0}, Arr: []int64{0, 0}}
		d := ast.NewDataContext()
		d.Add("F", f)
		e := NewGruleEngine()
		e.MaxCycle = 30
		res := e.Execute(d, kb)
		got := f.M["k"]
		if sc.name == "slice element" {
			got = f.Arr[1]
		}
		if res != nil || got != 3 {
			bad = append(bad, fmt.Sprintf("%s: `%s` final value %d (want 3), Execute returned %v", sc.name, grl, got, res != nil))
		}
	}
	// a JSON object's member is the same location in the dot form and in the selector form
	for _, sc := range []struct{ name, read, write string }{
		{"JSON member, selector read and dot write", `J.m["k"]`, `J.m.k`},
		{"JSON member, dot read and selector write", `J.m.k`, `J.m["k"]`},
	} {
		grl := fmt.Sprintf("rule Count \"c\" { when %s < 3 then %s = %s + 1; }", sc.read, sc.write, sc.write)
		lib := ast.NewKnowledgeLibrary()
		if err := builder.NewRuleBuilder(lib).BuildRuleFromResource("K", "1", pkg.NewBytesResource([]byte(grl))); err != nil {
			t.Fatalf("build %s: %v", grl, err)
		}
		kb, err := lib.NewKnowledgeBaseInstance("K", "1")
		if err != nil {
			t.Fatal(err)
		}
		d := ast.NewDataContext()
		if err := d.AddJSON("J", []byte(`{"m":{"k":0}}`)); err != nil {
			t.Fatal(err)
		}
		e := NewGruleEngine()
		e.MaxCycle = 30
		res := e.Execute(d, kb)
		got := fmt.Sprint(d.Get("J").Value().Interface().(map[string]interface{})["m"].(map[string]interface{})["k"])
		if res != nil || got != "3" {
			bad = append(bad, fmt.Sprintf("%s: `%s` final value %s (want 3), Execute returned %v", sc.name, grl, got, res != nil))
		}
	}
	if len(bad) > 0 {
		t.Fatalf("CONFIRMED: %d rule(s) keep firing on a remembered condition after the action wrote the same location through another selector expression: %s", len(bad), strings.Join(bad, " ; "))
	}
}

// Two paths that reach the same struct through a shared pointer (its own harness: it demonstrates an open finding).
type replayPtrInner struct{ V int64 }
type replayPtrFact struct{ P, Q *replayPtrInner }

func TestReplaySearchPointerAlias(t *testing.T) {
	grl := `rule Count "c" { when F.P.V < 3 then F.Q.V = F.Q.V + 1; }`
	lib := ast.NewKnowledgeLibrary()
	if err := builder.NewRuleBuilder(lib).BuildRuleFromResource("K", "1", pkg.NewBytesResource([]byte(grl))); err != nil {
		t.Fatalf("build %s: %v", grl, err)
	}
	kb, err := lib.NewKnowledgeBaseInstance("K", "1")
	if err != nil {
		t.Fatal(err)
	}
	in := &replayPtrInner{}
	f := &replayPtrFact{P: in, Q: in}
	d := ast.NewDataContext()
	d.Add("F", f)
	e := NewGruleEngine()
	e.MaxCycle = 30
	res := e.Execute(d, kb)
	if res != nil || in.V != 3 {
		t.Fatalf("CONFIRMED: F.P and F.Q point to the same struct; `%s` ends with V=%d (want 3), Execute returned an error: %v - the condition remembered for F.P.V survived the write through F.Q.V", grl, in.V, res != nil)
	}
}

// F30 (A-ALIAS, the collection-element family of F25 seen one level down): a FIELD of a slice element written through a literal
// selector is also named by a computed selector. Rule A (salience 10) writes F.Items[0].Price = 1; rule B's condition
// F.Items[F.I].Price > 3 (with F.I == 0) was remembered as true before the write and must be false afterwards.
type replayElemItem struct{ Price int64 }
type replayElemFact struct {
	Items []*replayElemItem
	I     int64
	Hits  int64
}

func TestReplaySearchElementFieldAlias(t *testing.T) {
	grl := `rule A "a" salience 10 { when F.Items[F.I].Price > 3 && F.Hits == 0 then F.Hits = 1; F.Items[0].Price = 1; }
rule B "b" salience 5 { when F.Items[F.I].Price > 3 && F.Hits == 1 then F.Hits = 2; }`
	lib := ast.NewKnowledgeLibrary()
	if err := builder.NewRuleBuilder(lib).BuildRuleFromResource("K", "1", pkg.NewBytesResource([]byte(grl))); err != nil {
		t.Fatalf("build %s: %v", grl, err)
	}
	kb, err := lib.NewKnowledgeBaseInstance("K", "1")
	if err != nil {
		t.Fatal(err)
	}
	f := &replayElemFact{Items: []*replayElemItem{{Price: 9}}}
	d := ast.NewDataContext()
	d.Add("F", f)
	e := NewGruleEngine()
	e.MaxCycle = 30
	res := e.Execute(d, kb)
	if res != nil || f.Hits != 1 {
		t.Fatalf("CONFIRMED: F.Items[0].Price and F.Items[F.I].Price (F.I == 0) name the same field; after rule A wrote F.Items[0].Price = 1 rule B fired on its remembered `F.Items[F.I].Price > 3`: Hits=%d (want 1), Price=%d, Execute error: %v", f.Hits, f.Items[0].Price, res != nil)
	}
}

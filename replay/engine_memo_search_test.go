package engine

// Bounded concrete search for C01 / C02 / C13 (memo invalidation obligations of Variable.Assign, ResetVariable, IndexVariables,
// Reset): counting rules over every addressable path shape. Each rule "when P < 3 then P = P + 1" must fire exactly three
// times and leave P == 3; a remembered condition value makes it loop to the cycle limit (stale true) or stop early (stale false).

import (
	"fmt"
	"testing"

	"github.com/hyperjumptech/grule-rule-engine/ast"
	"github.com/hyperjumptech/grule-rule-engine/builder"
	"github.com/hyperjumptech/grule-rule-engine/pkg"
)

type replayMemoInner struct{ V int }
type replayMemoFact struct {
	A     int
	In    *replayMemoInner
	Arr   []int
	M     map[string]int64
	Calls int
}

func (f *replayMemoFact) Get() int { f.Calls++; return f.A }

func TestReplaySearchMemo(t *testing.T) {
	paths := []struct{ name, path string }{
		{"top-level variable", "N"},
		{"struct field", "F.A"},
		{"nested field behind a pointer", "F.In.V"},
		{"slice element", "F.Arr[1]"},
		{"map entry", `F.M["k"]`},
	}
	for _, p := range paths {
		for _, form := range []string{"%s = %s + 1;", "%s += 1;"} {
			then := fmt.Sprintf(form, p.path, p.path)
			if form == "%s += 1;" {
				then = fmt.Sprintf(form, p.path)
			}
			grl := fmt.Sprintf("rule Count \"c\" { when %s < 3 then %s }\nrule Other \"o\" salience -1 { when %s == 3 && F.Calls == 0 then F.Calls = 100; }", p.path, then, p.path)
			lib := ast.NewKnowledgeLibrary()
			if err := builder.NewRuleBuilder(lib).BuildRuleFromResource("K", "1", pkg.NewBytesResource([]byte(grl))); err != nil {
				t.Fatalf("build %s: %v", grl, err)
			}
			kb, err := lib.NewKnowledgeBaseInstance("K", "1")
			if err != nil {
				t.Fatal(err)
			}
			f := &replayMemoFact{In: &replayMemoInner{}, Arr: []int{0, 0}, M: map[string]int64{"k": 0}}
			d := ast.NewDataContext()
			d.Add("F", f)
			d.Add("N", 0)
			e := NewGruleEngine()
			e.MaxCycle = 30
			res := e.Execute(d, kb)
			var got int64
			switch p.path {
			case "N":
				got = d.Get("N").Value().Int()
			case "F.A":
				got = int64(f.A)
			case "F.In.V":
				got = int64(f.In.V)
			case "F.Arr[1]":
				got = int64(f.Arr[1])
			default:
				got = int64(f.M["k"])
			}
			if res != nil || got != 3 || f.Calls != 100 {
				t.Fatalf("CONFIRMED: %s, rules:\n%s\nfinal value %d (want 3), second rule fired=%v (want true), Execute returned %v: a remembered condition value survived the assignment", p.name, grl, got, f.Calls == 100, res)
			}
		}
	}
}

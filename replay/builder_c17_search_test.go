package builder

// Bounded concrete search for C17/C20 (GRL loader): token-level mutants of valid rule texts must be rejected with an error or
// accepted as grammatical, never crash the builder; literals out of range are errors; and a rejected text must not damage a
// knowledge base that was loaded before (it can still be instantiated).

import (
	"fmt"
	"strings"
	"testing"

	"github.com/hyperjumptech/grule-rule-engine/ast"
	"github.com/hyperjumptech/grule-rule-engine/pkg"
)

const replayC17Good = `rule Good "a good rule" salience 10 { when F.A > 1 && F.S == "x" then F.B = F.A + 1; Retract("Good"); }`

func replayC17Build(lib *ast.KnowledgeLibrary, grl string) (err error, panicked interface{}) {
	defer func() {
		if r := recover(); r != nil {
			panicked = r
		}
	}()
	err = NewRuleBuilder(lib).BuildRuleFromResource("K", "1", pkg.NewBytesResource([]byte(grl)))
	return
}

var replayC17Bad = []string{
	`rule X "d" salience 2147483648 { when F.A > 0 then F.A = 1; }`,
	`rule X "d" salience -2147483649 { when F.A > 0 then F.A = 1; }`,
	`rule X "d" salience 99999999999999999999 { when F.A > 0 then F.A = 1; }`,
	`rule X "d" { when F.A > 99999999999999999999 then F.A = 1; }`,
	`rule X "d" { when F.A > 0 then F.A = "\q"; }`,
	`rule X "d" { when F.A > 0 then F.A = 1 }`,
	`rule X "d" { when then F.A = 1; }`,
	`rule X "d" { when F.A > 0 then }`,
	`rule X "d" { when F.A > 0 F.A = 1; }`,
	`rule X "d" { when (F.A > 0 then F.A = 1; }`,
	`rule X "d" { when F.A > 0) then F.A = 1; }`,
	`rule X "d" { when F.A > 0 then F.B(1; }`,
	`rule X "d" { when F.A[1 > 0 then F.A = 1; }`,
	`rule X "d" { when F.A > 0 then F.A = 1; } }`,
	`rule X "d" { when F.A > 0 then F.A = 1; `,
	`rule X "d" { when F.A # 0 then F.A = 1; }`,
	`rule rule "d" { when F.A > 0 then F.A = 1; }`,
	`rule X "d" { when when > 0 then F.A = 1; }`,
	`rule X "d" { when F.A > 0 then then = 1; }`,
	`rule X "d { when F.A > 0 then F.A = 1; }`,
	`rule X "d" { when F. > 0 then F.A = 1; }`,
	`rule X "d" { when F.A > 0 then F.A = ; }`,
	`rule X "d" { when F.A > > 0 then F.A = 1; }`,
	`X "d" { when F.A > 0 then F.A = 1; }`,
}

func TestReplaySearchGrlLoader(t *testing.T) {
	// 1. no crash, no silent acceptance of the known-bad corpus, into an empty and into a loaded knowledge base
	for _, bad := range replayC17Bad {
		lib := ast.NewKnowledgeLibrary()
		err, p := replayC17Build(lib, bad)
		if p != nil {
			t.Fatalf("CONFIRMED: BuildRuleFromResource panicked (%v) on: %s", p, bad)
		}
		if err == nil {
			t.Fatalf("CONFIRMED: ungrammatical text accepted without error: %s", bad)
		}
	}
	// 1b. boundary numbers in every literal position: a result or an error, never a crash
	for _, num := range []string{"-2147483648", "2147483647", "-2147483647", "-0x80000000", "0x7fffffff", "-020000000000", "0", "-0",
		"9223372036854775807", "-9223372036854775808", "9223372036854775808", "0xffffffffffffffff", "1e308", "1e309", "0x1p-1074"} {
		for _, text := range []string{
			`rule X "d" salience ` + num + ` { when F.A > 0 then F.A = 1; }`,
			`rule X "d" { when F.A > ` + num + ` then F.A = 1; }`,
			`rule X "d" { when F.A > 0 then F.A = ` + num + `; }`,
			`rule X "d" { when F.L[` + num + `] > 0 then F.A = 1; }`,
		} {
			lib := ast.NewKnowledgeLibrary()
			if _, p := replayC17Build(lib, text); p != nil {
				t.Fatalf("CONFIRMED: BuildRuleFromResource panicked (%v) on: %s", p, text)
			}
		}
	}
	// 2. single-token deletions of a valid text: never a crash; whatever is accepted must instantiate
	toks := strings.Fields(replayC17Good)
	for i := range toks {
		mut := strings.Join(append(append([]string{}, toks[:i]...), toks[i+1:]...), " ")
		lib := ast.NewKnowledgeLibrary()
		err, p := replayC17Build(lib, mut)
		if p != nil {
			t.Fatalf("CONFIRMED: BuildRuleFromResource panicked (%v) on: %s", p, mut)
		}
		if err == nil {
			if _, ierr := lib.NewKnowledgeBaseInstance("K", "1"); ierr != nil {
				t.Fatalf("CONFIRMED: accepted text cannot be instantiated (%v): %s", ierr, mut)
			}
		}
	}
}

// a rejected text after a good one does not damage the knowledge base
func TestReplaySearchRejectedHarmless(t *testing.T) {
	for _, bad := range replayC17Bad {
		lib := ast.NewKnowledgeLibrary()
		if err, p := replayC17Build(lib, replayC17Good); err != nil || p != nil {
			t.Fatalf("harness: the good rule does not load: %v %v", err, p)
		}
		if _, err := lib.NewKnowledgeBaseInstance("K", "1"); err != nil {
			t.Fatalf("harness: the good rule does not instantiate: %v", err)
		}
		err, p := replayC17Build(lib, bad)
		if p != nil {
			t.Fatalf("CONFIRMED: BuildRuleFromResource panicked (%v) on: %s", p, bad)
		}
		if err == nil {
			continue
		}
		if _, ierr := lib.NewKnowledgeBaseInstance("K", "1"); ierr != nil {
			t.Fatalf("CONFIRMED: after the rejected text %q the knowledge base loaded before can no longer be instantiated: %v", bad, fmt.Sprint(ierr))
		}
	}
}

// Snapshot size (C20): the snapshot of a rule's condition - built for every node while the text is loaded - must stay within a
// modest multiple of the rule text, for every nesting shape the grammar has (selectors, method chains, member chains,
// parentheses, negations, argument lists), at depths 1..12. A branch that writes a child twice doubles per level: at depth 12
// the snapshot of an 80-byte text is then 80 KB.
func TestReplaySearchSnapshotSize(t *testing.T) {
	shapes := []struct{ name, pre, rep, post string }{
		{"selector chain", `F.f()`, `[0]`, ` == 1`},
		{"selector chain on variable", `F.A`, `[0]`, ` == 1`},
		{"map selector chain", `F.M`, `["k"]`, ` == 1`},
		{"method chain", `F.f()`, `.g()`, ` == 1`},
		{"member chain", `F.f()`, `.B`, ` == 1`},
		{"argument nesting", ``, `F.f(`, `1` + strings.Repeat(")", 0)},
		{"additions", `F.A`, ` + F.A`, ` == 1`},
		{"conjunctions", `F.A > 0`, ` && F.A > 0`, ``},
	}
	for _, sh := range shapes {
		for n := 1; n <= 12; n++ {
			cond := sh.pre + strings.Repeat(sh.rep, n) + sh.post
			if sh.name == "argument nesting" {
				cond = strings.Repeat("F.f(", n) + "1" + strings.Repeat(")", n) + " == 1"
			}
			for _, wrap := range []string{"%s", "(%s)", "!(%s)"} {
				text := `rule X "d" { when ` + fmt.Sprintf(wrap, cond) + ` then F.A = 1; }`
				lib := ast.NewKnowledgeLibrary()
				err, p := replayC17Build(lib, text)
				if p != nil {
					t.Fatalf("CONFIRMED: BuildRuleFromResource panicked (%v) on: %s", p, text)
				}
				if err != nil {
					continue
				}
				kb := lib.GetKnowledgeBase("K", "1")
				for _, re := range kb.RuleEntries {
					snap := re.WhenScope.Expression.GetSnapshot()
					if len(snap) > 40*len(text) {
						t.Fatalf("CONFIRMED: %s of depth %d: the condition's snapshot is %d bytes for a rule text of %d bytes (more than 40x; it doubles per level): %s", sh.name, n, len(snap), len(text), text)
					}
				}
			}
		}
	}
}

package builder

// Bounded concrete search for C17/C20 (GRL loader): token-level mutants of valid rule texts must be rejected with an error or
// accepted as grammatical, never crash the builder; literals out of range are errors; and a rejected text must not damage a
// knowledge base that was loaded before (it can still be instantiated).

import (
	"fmt"
	"strings"
	"testing"

	"github.com/hyperjumptech/grule-rule-engine/ast"
	"github.com/hyperjumptech/grule-rule-engine/pkg"
)

const replayC17Good = `rule Good "a good rule" salience 10 { when F.A > 1 && F.S == "x" then F.B = F.A + 1; Retract("Good"); }`

func replayC17Build(lib *ast.KnowledgeLibrary, grl string) (err error, panicked interface{}) {
	defer func() {
		if r := recover(); r != nil {
			panicked = r
		}
	}()
	err = NewRuleBuilder(lib).BuildRuleFromResource("K", "1", pkg.NewBytesResource([]byte(grl)))
	return
}

var replayC17Bad = []string{
	`rule X "d" salience 2147483648 { when F.A > 0 then F.A = 1; }`,
	`rule X "d" salience -2147483649 { when F.A > 0 then F.A = 1; }`,
	`rule X "d" salience 99999999999999999999 { when F.A > 0 then F.A = 1; }`,
	`rule X "d" { when F.A > 99999999999999999999 then F.A = 1; }`,
	`rule X "d" { when F.A > 0 then F.A = "\q"; }`,
	`rule X "d" { when F.A > 0 then F.A = 1 }`,
	`rule X "d" { when then F.A = 1; }`,
	`rule X "d" { when F.A > 0 then }`,
	`rule X "d" { when F.A > 0 F.A = 1; }`,
	`rule X "d" { when (F.A > 0 then F.A = 1; }`,
	`rule X "d" { when F.A > 0) then F.A = 1; }`,
	`rule X "d" { when F.A > 0 then F.B(1; }`,
	`rule X "d" { when F.A[1 > 0 then F.A = 1; }`,
	`rule X "d" { when F.A > 0 then F.A = 1; } }`,
	`rule X "d" { when F.A > 0 then F.A = 1; `,
	`rule X "d" { when F.A # 0 then F.A = 1; }`,
	`rule rule "d" { when F.A > 0 then F.A = 1; }`,
	`rule X "d" { when when > 0 then F.A = 1; }`,
	`rule X "d" { when F.A > 0 then then = 1; }`,
	`rule X "d { when F.A > 0 then F.A = 1; }`,
	`rule X "d" { when F. > 0 then F.A = 1; }`,
	`rule X "d" { when F.A > 0 then F.A = ; }`,
	`rule X "d" { when F.A > > 0 then F.A = 1; }`,
	`X "d" { when F.A > 0 then F.A = 1; }`,
}

func TestReplaySearchGrlLoader(t *testing.T) {
	// 1. no crash, no silent acceptance of the known-bad corpus, into an empty and into a loaded knowledge base
	for _, bad := range replayC17Bad {
		lib := ast.NewKnowledgeLibrary()
		err, p := replayC17Build(lib, bad)
		if p != nil {
			t.Fatalf("CONFIRMED: BuildRuleFromResource panicked (%v) on: %s", p, bad)
		}
		if err == nil {
			t.Fatalf("CONFIRMED: ungrammatical text accepted without error: %s", bad)
		}
	}
	// 2. single-token deletions of a valid text: never a crash; whatever is accepted must instantiate
	toks := strings.Fields(replayC17Good)
	for i := range toks {
		mut := strings.Join(append(append([]string{}, toks[:i]...), toks[i+1:]...), " ")
		lib := ast.NewKnowledgeLibrary()
		err, p := replayC17Build(lib, mut)
		if p != nil {
			t.Fatalf("CONFIRMED: BuildRuleFromResource panicked (%v) on: %s", p, mut)
		}
		if err == nil {
			if _, ierr := lib.NewKnowledgeBaseInstance("K", "1"); ierr != nil {
				t.Fatalf("CONFIRMED: accepted text cannot be instantiated (%v): %s", ierr, mut)
			}
		}
	}
}

// a rejected text after a good one does not damage the knowledge base
func TestReplaySearchRejectedHarmless(t *testing.T) {
	for _, bad := range replayC17Bad {
		lib := ast.NewKnowledgeLibrary()
		if err, p := replayC17Build(lib, replayC17Good); err != nil || p != nil {
			t.Fatalf("harness: the good rule does not load: %v %v", err, p)
		}
		if _, err := lib.NewKnowledgeBaseInstance("K", "1"); err != nil {
			t.Fatalf("harness: the good rule does not instantiate: %v", err)
		}
		err, p := replayC17Build(lib, bad)
		if p != nil {
			t.Fatalf("CONFIRMED: BuildRuleFromResource panicked (%v) on: %s", p, bad)
		}
		if err == nil {
			continue
		}
		if _, ierr := lib.NewKnowledgeBaseInstance("K", "1"); ierr != nil {
			t.Fatalf("CONFIRMED: after the rejected text %q the knowledge base loaded before can no longer be instantiated: %v", bad, fmt.Sprint(ierr))
		}
	}
}

package engine

// Bounded concrete search for C08 / C11 (obligations ...#inv@1.fresh/entry): call histories of length 2 on ONE knowledge-base
// instance are compared with the second call alone on a FRESH instance. Property: same outcome.

import (
	"fmt"
	"sort"
	"testing"

	"github.com/hyperjumptech/grule-rule-engine/ast"
	"github.com/hyperjumptech/grule-rule-engine/builder"
	"github.com/hyperjumptech/grule-rule-engine/pkg"
)

type replayReuseFact struct {
	X, Y, Z int
}

func TestReplaySearchReuse(t *testing.T) {
	rulesets := []string{
		`rule R "retracts itself" salience 1 { when F.X == 0 then F.Y = F.Y + 1; Retract("R"); }`,
		`rule A "a" salience 2 { when F.X < 2 then F.X = F.X + 1; }
		 rule B "b" salience 1 { when F.X == 2 && F.Z == 0 then F.Z = 1; Retract("A"); Complete(); }`,
		`rule A "a" salience 2 { when F.X == 0 then F.Y = 5; Retract("A"); Retract("B"); }
		 rule B "b" salience 1 { when F.Y == 0 then F.Z = 9; }`,
	}
	facts := []replayReuseFact{{0, 0, 0}, {1, 0, 0}, {2, 0, 0}, {0, 3, 0}}
	outcome := func(kb *ast.KnowledgeBase, op string, f replayReuseFact) string {
		dctx := ast.NewDataContext()
		dctx.Add("F", &f)
		e := NewGruleEngine()
		e.MaxCycle = 10
		if op == "Execute" {
			err := e.Execute(dctx, kb)
			return fmt.Sprintf("err=%v facts=%+v", err != nil, f)
		}
		rs, err := e.FetchMatchingRules(dctx, kb)
		var names []string
		for _, r := range rs {
			names = append(names, r.RuleName)
		}
		sort.Strings(names)
		return fmt.Sprintf("err=%v matching=%v", err != nil, names)
	}
	for ri, grl := range rulesets {
		lib := ast.NewKnowledgeLibrary()
		if err := builder.NewRuleBuilder(lib).BuildRuleFromResource("K", "1", pkg.NewBytesResource([]byte(grl))); err != nil {
			t.Fatalf("build: %v", err)
		}
		for _, f1 := range facts {
			for _, op1 := range []string{"Execute", "Fetch"} {
				for _, f2 := range facts {
					for _, op2 := range []string{"Execute", "Fetch"} {
						reused, _ := lib.NewKnowledgeBaseInstance("K", "1")
						fresh, _ := lib.NewKnowledgeBaseInstance("K", "1")
						outcome(reused, op1, f1)
						got := outcome(reused, op2, f2)
						want := outcome(fresh, op2, f2)
						if got != want {
							t.Fatalf("CONFIRMED: rule set #%d: %s(%+v) then %s(%+v) on one instance gives [%s], a fresh instance gives [%s]", ri, op1, f1, op2, f2, got, want)
						}
					}
				}
			}
		}
	}
	// the second call's data context LACKS a fact the first one had: nothing remembered about the absent fact may survive
	{
		grl := `rule UseG "g" salience 2 { when G.X == 1 then F.Y = F.Y + 10; Retract("UseG"); }
		 rule UseF "f" salience 1 { when F.X == 0 then F.Z = F.Z + 1; Retract("UseF"); }`
		lib := ast.NewKnowledgeLibrary()
		if err := builder.NewRuleBuilder(lib).BuildRuleFromResource("K", "1", pkg.NewBytesResource([]byte(grl))); err != nil {
			t.Fatalf("build: %v", err)
		}
		run := func(kb *ast.KnowledgeBase, op string, withG bool) string {
			f, g := &replayReuseFact{}, &replayReuseFact{X: 1}
			dctx := ast.NewDataContext()
			dctx.Add("F", f)
			if withG {
				dctx.Add("G", g)
			}
			e := NewGruleEngine()
			e.MaxCycle = 10
			if op == "Execute" {
				err := e.Execute(dctx, kb)
				return fmt.Sprintf("err=%v F=%+v", err != nil, *f)
			}
			rs, err := e.FetchMatchingRules(dctx, kb)
			var names []string
			for _, r := range rs {
				names = append(names, r.RuleName)
			}
			sort.Strings(names)
			return fmt.Sprintf("err=%v matching=%v", err != nil, names)
		}
		for _, op1 := range []string{"Execute", "Fetch"} {
			for _, op2 := range []string{"Execute", "Fetch"} {
				reused, _ := lib.NewKnowledgeBaseInstance("K", "1")
				fresh, _ := lib.NewKnowledgeBaseInstance("K", "1")
				run(reused, op1, true)
				got := run(reused, op2, false)
				want := run(fresh, op2, false)
				if got != want {
					t.Fatalf("CONFIRMED: %s with facts F and G, then %s with fact F only on one instance gives [%s], a fresh instance gives [%s]\n%s", op1, op2, got, want, grl)
				}
			}
		}
	}

}

package engine

// Search harness (BOUNDED, not a proof) behind the store-side obligations of C12 (AddMeta, the node-level MakeCatalog functions,
// KnowledgeBase.MakeCatalog) and the rebuild invariants of BuildKnowledgeBase: a stored and re-loaded knowledge base has the same name,
// version, rule names, descriptions and saliences and its instances behave like instances of the stored one - also after storing and
// loading again. The corpus concentrates on sharing: the same call statement on several then-lines, an argument that is also a
// condition operand, an expression with the same sub-expression on both sides, selectors, negated wrapping atoms, all five assignment
// forms, non-positive saliences. No rule is removed (a removed rule coming back is the separate known finding F5).

import (
	"bytes"
	"fmt"
	"sort"
	"testing"

	"github.com/hyperjumptech/grule-rule-engine/ast"
	"github.com/hyperjumptech/grule-rule-engine/builder"
	"github.com/hyperjumptech/grule-rule-engine/pkg"
)

type rtFact struct {
	A, B, C, Hits int64
	X             float64
	S, Trace      string
	Flag          bool
	Arr           []int64
	M             map[string]int64
}

func (f *rtFact) Hit()                  { f.Hits++ }
func (f *rtFact) Log(s string)          { f.Trace += s + ";" }
func (f *rtFact) Max(a, b int64) int64 { if a > b { return a }; return b }
func (f *rtFact) Odd(a int64) bool      { return a%2 != 0 }

var rtCorpus = []string{
	`rule R1 "one" salience 3 { when F.A == 0 then F.A = 1; F.Hit(); } rule R2 "two" salience 2 { when F.A == 1 then F.A = 2; F.Hit(); } rule R3 "three" { when F.A == 2 then F.A = 3; F.Hit(); F.Log("x"); F.Hit(); }`,
	`rule R1 "shared argument" { when F.A < 3 && F.Max(F.A, F.B) < 10 then F.A = F.A + 1; F.C = F.Max(F.A, F.B); F.Log("r1"); }`,
	`rule R1 "same both sides" salience -2 { when F.A + 1 == F.A + 1 && F.B < 2 then F.B = F.B + 1; } rule R2 "zero" salience 0 { when F.B == 2 && F.C == 0 then F.C = F.A + 1; F.Log("r2"); }`,
	`rule R1 "selectors" { when F.Arr[F.A] < 5 && F.A < 2 then F.Arr[F.A] = F.Arr[F.A] + 5; F.A = F.A + 1; F.Log("s"); } rule R2 "map" salience -1 { when F.M["k"] < 2 then F.M["k"] = F.M["k"] + 1; F.Log("m"); }`,
	`rule R1 "negations" { when !F.Flag && !(F.A > 2) && !F.Odd(F.B) then F.A = F.A + 1; F.B = F.B + 2; F.Log("n"); } rule R2 "flag" salience -3 { when !F.Flag && F.A == 3 then F.Flag = true; F.Log("f"); }`,
	`rule R1 "assignment forms" { when F.C == 0 then F.A += 5; F.A -= 1; F.A *= 3; F.X = 9.0; F.X /= 2; F.S = "a"; F.S += "b"; F.C = 1; }`,
	`rule R1 "strings" { when F.S.Len() < 3 && F.S.ToUpper() != "ZZZ" then F.S = F.S + "z"; F.Log(F.S.ToUpper()); } rule R2 "then" salience -7 { when F.S == "zzz" && F.Hits == 0 then F.Hit(); F.Log(F.S); Complete(); }`,
	`rule R1 "retract" salience 5 { when F.A == 0 then F.Log("once"); Retract("R1"); } rule R2 "count" { when F.B < 2 then F.B = F.B + 1; F.Log("c"); }`,
	`rule R1 "constants" { when F.S == "" && F.A > -3 && F.X < 2.5e3 && !F.Flag && F.B != 0x7FFFFFFFFFFFFFFF then F.S = "Grüezi, 世界!"; F.Trace = "tab\there \"q\""; F.A = -9223372036854775807; F.X = -0.000001; F.Flag = true; F.C = 017; }`,
	`rule R1 "unicode condition" { when F.S == "z" && F.Trace != "Zürich" then F.Trace = "Zürich"; F.Log("ü"); } rule R2 "after" salience -1 { when F.Trace == "Zürich;ü;" || F.Trace == "Zürichü;" then F.C = 5; }`,
	`rule R1 "precedence" { when F.A + 2 * 3 == 6 && (F.A + 2) * 3 == 6 && F.B == 0 then F.B = 1 + 2 * 3; F.C = (1 + 2) * 3; }`,
}

type rtOutcome struct {
	fact  string
	err   string
	rules string
}

func rtRun(kb *ast.KnowledgeBase, start rtFact) rtOutcome {
	f := start
	f.Arr = append([]int64(nil), start.Arr...)
	f.M = map[string]int64{}
	for k, v := range start.M {
		f.M[k] = v
	}
	d := ast.NewDataContext()
	d.Add("F", &f)
	e := &GruleEngine{MaxCycle: 30}
	err := e.Execute(d, kb)
	var rules []string
	for k, r := range kb.RuleEntries {
		rules = append(rules, fmt.Sprintf("%s|%s|%d", k, r.RuleDescription, r.Salience))
	}
	sort.Strings(rules)
	return rtOutcome{fmt.Sprintf("%+v", f), fmt.Sprint(err), fmt.Sprint(rules)}
}

func TestReplaySearchStoreLoadBehaviour(t *testing.T) {
	facts := []rtFact{
		{Arr: []int64{1, 2, 9}, M: map[string]int64{"k": 0}},
		{A: 1, B: 1, Arr: []int64{7, 0, 3}, M: map[string]int64{"k": 1}, S: "z"},
	}
	n := 0
	for ci, grl := range rtCorpus {
		lib := ast.NewKnowledgeLibrary()
		if err := builder.NewRuleBuilder(lib).BuildRuleFromResource("K", "1", pkg.NewBytesResource([]byte(grl))); err != nil {
			t.Fatalf("harness: corpus entry %d does not build: %v", ci, err)
		}
		cur := lib
		for round := 1; round <= 2; round++ {
			var buf bytes.Buffer
			if err := cur.StoreKnowledgeBaseToWriter(&buf, "K", "1"); err != nil {
				t.Fatalf("CONFIRMED: round %d: storing corpus entry %d fails: %v; rule set: %s", round, ci, err, grl)
			}
			next := ast.NewKnowledgeLibrary()
			kb, err := next.LoadKnowledgeBaseFromReader(bytes.NewReader(buf.Bytes()), true)
			if err != nil {
				t.Fatalf("CONFIRMED: round %d: the stream stored for corpus entry %d does not load: %v; rule set: %s", round, ci, err, grl)
			}
			if kb.Name != "K" || kb.Version != "1" {
				t.Fatalf("CONFIRMED: round %d: corpus entry %d loads as %s:%s; rule set: %s", round, ci, kb.Name, kb.Version, grl)
			}
			for _, f := range facts {
				n++
				orig, err1 := lib.NewKnowledgeBaseInstance("K", "1")
				loaded, err2 := next.NewKnowledgeBaseInstance("K", "1")
				if err1 != nil || err2 != nil {
					t.Fatalf("CONFIRMED: round %d: corpus entry %d: instance of the original: %v, of the loaded knowledge base: %v; rule set: %s", round, ci, err1, err2, grl)
				}
				want, got := rtRun(orig, f), rtRun(loaded, f)
				if want != got {
					t.Fatalf("CONFIRMED: after %d store/load round(s) corpus entry %d behaves differently on %+v: original %s err=%s rules=%s; loaded %s err=%s rules=%s; rule set: %s", round, ci, f, want.fact, want.err, want.rules, got.fact, got.err, got.rules, grl)
				}
			}
			cur = next
		}
	}
	fmt.Printf("BOUNDED-CASES: %d (rule set, fact state, round) combinations, no difference between original and loaded knowledge base\n", n)
}

// failing writer: a writer that refuses exactly one write call (and accepts all others), one that refuses every call from the k-th on,
// and one that writes only half of the k-th buffer (reporting the error io.Writer demands) must each make the store return an error -
// for EVERY index k of the writer's calls (C12: "a store whose writer fails at any write"). Replay family of the write-side obligations.
type rtFailingWriter struct {
	calls, failAt int
	mode          int // 0: only call failAt fails, 1: every call from failAt on fails, 2: call failAt is a short write
}

func (w *rtFailingWriter) Write(p []byte) (int, error) {
	k := w.calls
	w.calls++
	switch {
	case w.mode == 0 && k == w.failAt, w.mode == 1 && k >= w.failAt:
		return 0, fmt.Errorf("refused write call %d", k)
	case w.mode == 2 && k == w.failAt:
		return len(p) / 2, fmt.Errorf("short write at call %d", k)
	}
	return len(p), nil
}

func TestReplaySearchFailingWriter(t *testing.T) {
	n := 0
	for ci, grl := range rtCorpus[:4] {
		lib := ast.NewKnowledgeLibrary()
		if err := builder.NewRuleBuilder(lib).BuildRuleFromResource("K", "1", pkg.NewBytesResource([]byte(grl))); err != nil {
			t.Fatalf("harness: corpus entry %d does not build: %v", ci, err)
		}
		count := &rtFailingWriter{failAt: -1}
		if err := lib.StoreKnowledgeBaseToWriter(count, "K", "1"); err != nil {
			t.Fatalf("CONFIRMED: storing corpus entry %d to a writer that accepts everything fails: %v; rule set: %s", ci, err, grl)
		}
		for mode := 0; mode <= 2; mode++ {
			for k := 0; k < count.calls; k++ {
				n++
				w := &rtFailingWriter{failAt: k, mode: mode}
				if err := lib.StoreKnowledgeBaseToWriter(w, "K", "1"); err == nil && w.calls > k {
					t.Fatalf("CONFIRMED: the writer failed at its call %d of %d (mode %d: 0 = only that call refused, 1 = refused from there on, 2 = short write) but StoreKnowledgeBaseToWriter returned nil; rule set: %s", k, count.calls, mode, grl)
				}
			}
		}
	}
	fmt.Printf("BOUNDED-CASES: %d (rule set, failing call, failure mode) combinations, every failure reported\n", n)
}

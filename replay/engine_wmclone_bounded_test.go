package engine

// BOUNDED stand-in (not a proof) for (*WorkingMemory).Clone, which is an ASSUMED contract in the deductive part (seven loops
// over five map types with allocation-relative frames). For a corpus of rule sets the blueprint is instantiated twice and the
// instance's working memory is inspected on the real objects (unexported fields through reflect / unsafe):
//   * every node filed in an instance's working memory is reachable from that instance's own rule entries, and every
//     expression / atom / variable the instance's rules reach is filed,
//   * no node of an instance is a node of the blueprint or of the other instance (no sharing),
//   * the instance files the same keys as the blueprint, and re-using the instance gives the results of a fresh one,
//   * under every variable the instance's two invalidation indexes list what the blueprint's list (compared by snapshot).

import (
	"fmt"
	"reflect"
	"sort"
	"strings"
	"testing"
	"unsafe"

	"github.com/hyperjumptech/grule-rule-engine/ast"
	"github.com/hyperjumptech/grule-rule-engine/builder"
	"github.com/hyperjumptech/grule-rule-engine/pkg"
)

type wmCloneFact struct {
	A, B, I int64
	S       string
	Arr     []int64
	M       map[string]int64
}

func (f *wmCloneFact) Twice(x int64) int64 { return 2 * x }
func (f *wmCloneFact) Self() *wmCloneFact  { return f }

var wmCloneCorpus = []string{
	`rule R1 "a" { when F.A < 3 && F.Twice(F.A) < 100 then F.A = F.A + 1; }`,
	`rule R1 "a" salience 2 { when F.A < 3 && F.B < 9 then F.A = F.A + 1; }`,
	`rule R1 "a" { when F.A + 1 < 4 then F.A = F.A + 1; } rule R2 "b" salience -5 { when F.A + 1 < 4 && F.B == 0 then F.B = F.A + 1; }`,
	`rule R1 "a" { when F.Arr[F.I] < 5 && F.I < 2 then F.Arr[F.I] = F.Arr[F.I] + 5; F.I = F.I + 1; }`,
	`rule R1 "a" { when F.Twice(F.A) < 6 then F.A = F.Twice(F.A) + 1; } rule R2 "b" salience -5 { when F.Twice(F.A) >= 6 && F.B == 0 then F.B = F.Twice(F.A); }`,
	`rule R1 "a" { when F.M["k"] < 3 then F.M["k"] = F.M["k"] + 1; } rule R2 "b" salience -5 { when !(F.M["k"] < 3) && F.S == "" then F.S = "done"; }`,
	`rule R1 "a" { when F.Self().A < 2 then F.A = F.Self().A + 1; Changed("F.Self()"); } rule R2 "b" salience -1 { when F.Self().A == 2 && F.B == 0 then F.B = 7; }`,
	`rule R1 "a" { when F.S.Len() < 3 then F.S = F.S + "x"; } rule R2 "b" salience -5 { when F.S.Len() == 3 && F.A == 0 then F.A = F.S.Len(); }`,
}

func wmCloneNodes(kb *ast.KnowledgeBase) map[uintptr]string {
	seen := map[uintptr]string{}
	var walk func(v reflect.Value, depth int)
	walk = func(v reflect.Value, depth int) {
		if depth > 40 || !v.IsValid() {
			return
		}
		switch v.Kind() {
		case reflect.Ptr:
			if v.IsNil() {
				return
			}
			t := v.Type().Elem()
			if t.PkgPath() != "github.com/hyperjumptech/grule-rule-engine/ast" || t.Kind() != reflect.Struct {
				return
			}
			switch t.Name() {
			case "KnowledgeBase", "WorkingMemory", "DataContext":
				return
			}
			if _, ok := seen[v.Pointer()]; ok {
				return
			}
			seen[v.Pointer()] = t.Name()
			walk(v.Elem(), depth+1)
		case reflect.Struct:
			for i := 0; i < v.NumField(); i++ {
				if v.Type().Field(i).Type.PkgPath() == "reflect" {
					continue
				}
				walk(v.Field(i), depth+1)
			}
		case reflect.Slice:
			for i := 0; i < v.Len(); i++ {
				walk(v.Index(i), depth+1)
			}
		case reflect.Interface:
			if !v.IsNil() {
				walk(v.Elem(), depth+1)
			}
		}
	}
	for _, re := range kb.RuleEntries {
		walk(reflect.ValueOf(re), 0)
	}
	return seen
}

// the nodes filed in the working memory: values of the three snapshot maps, keys and elements of the two index maps
func wmCloneFiled(kb *ast.KnowledgeBase) (map[uintptr]string, map[string]int) {
	filed := map[uintptr]string{}
	keys := map[string]int{}
	wm := reflect.ValueOf(kb.WorkingMemory).Elem()
	for _, name := range []string{"expressionSnapshotMap", "expressionAtomSnapshotMap", "variableSnapshotMap"} {
		m := wm.FieldByName(name)
		it := m.MapRange()
		for it.Next() {
			filed[it.Value().Pointer()] = name
			keys[name+"|"+it.Key().String()]++
		}
	}
	for _, name := range []string{"expressionVariableMap", "expressionAtomVariableMap"} {
		m := wm.FieldByName(name)
		it := m.MapRange()
		for it.Next() {
			filed[it.Key().Pointer()] = name + "(key)"
			for i := 0; i < it.Value().Len(); i++ {
				filed[it.Value().Index(i).Pointer()] = name
			}
		}
	}
	return filed, keys
}

// the two invalidation indexes as text: variable snapshot -> sorted snapshots of the expressions / atoms listed under it. An instance
// must list under (the clone of) every variable exactly what the blueprint lists (seed C09h: method-call atoms dropped from the
// instance's index only, so the instance forgets less than the library's rules do).
func wmCloneIndexShape(kb *ast.KnowledgeBase) map[string]string {
	shape := map[string]string{}
	wm := reflect.ValueOf(kb.WorkingMemory).Elem()
	for _, name := range []string{"expressionVariableMap", "expressionAtomVariableMap"} {
		it := wm.FieldByName(name).MapRange()
		for it.Next() {
			v := (*ast.Variable)(unsafe.Pointer(it.Key().Pointer()))
			var elems []string
			for i := 0; i < it.Value().Len(); i++ {
				p := unsafe.Pointer(it.Value().Index(i).Pointer())
				if name == "expressionVariableMap" {
					elems = append(elems, (*ast.Expression)(p).GetSnapshot())
				} else {
					elems = append(elems, (*ast.ExpressionAtom)(p).GetSnapshot())
				}
			}
			sort.Strings(elems)
			shape[name+"|"+v.GetSnapshot()] = strings.Join(elems, " ; ")
		}
	}
	return shape
}

func wmCloneRun(kb *ast.KnowledgeBase, f wmCloneFact) (wmCloneFact, string) {
	f.Arr = append([]int64(nil), f.Arr...)
	m := map[string]int64{}
	for k, v := range f.M {
		m[k] = v
	}
	f.M = m
	d := ast.NewDataContext()
	d.Add("F", &f)
	e := NewGruleEngine()
	e.MaxCycle = 40
	err := e.Execute(d, kb)
	return f, fmt.Sprint(err)
}

func TestBoundedWorkingMemoryClone(t *testing.T) {
	cases := 0
	for ci, grl := range wmCloneCorpus {
		lib := ast.NewKnowledgeLibrary()
		if err := builder.NewRuleBuilder(lib).BuildRuleFromResource("K", "1", pkg.NewBytesResource([]byte(grl))); err != nil {
			t.Fatalf("harness: corpus entry %d does not build: %v", ci, err)
		}
		blue := lib.GetKnowledgeBase("K", "1")
		blueNodes := wmCloneNodes(blue)
		blueFiled, blueKeys := wmCloneFiled(blue)
		i1, err1 := lib.NewKnowledgeBaseInstance("K", "1")
		i2, err2 := lib.NewKnowledgeBaseInstance("K", "1")
		if err1 != nil || err2 != nil {
			t.Fatalf("CONFIRMED: corpus entry %d cannot be instantiated: %v %v\n%s", ci, err1, err2, grl)
		}
		n1, n2 := wmCloneNodes(i1), wmCloneNodes(i2)
		for idx, inst := range []*ast.KnowledgeBase{i1, i2} {
			own := []map[uintptr]string{n1, n2}[idx]
			other := []map[uintptr]string{n2, n1}[idx]
			filed, keys := wmCloneFiled(inst)
			for p, where := range filed {
				cases++
				if _, ok := own[p]; !ok {
					t.Fatalf("CONFIRMED: instance %d of corpus entry %d files a node in %s that is not reachable from its own rule entries (the working memory would reset/forget a node the rules never evaluate)\n%s", idx+1, ci, where, grl)
				}
				if kind, ok := blueNodes[p]; ok {
					t.Fatalf("CONFIRMED: instance %d of corpus entry %d files a BLUEPRINT %s in %s (shared with the library)\n%s", idx+1, ci, kind, where, grl)
				}
				if _, ok := blueFiled[p]; ok {
					t.Fatalf("CONFIRMED: instance %d of corpus entry %d shares a filed node with the blueprint's working memory (%s)\n%s", idx+1, ci, where, grl)
				}
				if _, ok := other[p]; ok {
					t.Fatalf("CONFIRMED: the two instances of corpus entry %d share a node filed in %s\n%s", ci, where, grl)
				}
			}
			for p, kind := range own {
				if kind == "Expression" || kind == "ExpressionAtom" || kind == "Variable" {
					cases++
					if _, ok := filed[p]; !ok {
						t.Fatalf("CONFIRMED: instance %d of corpus entry %d evaluates a %s that is not filed in its working memory (it would never be reset or forgotten)\n%s", idx+1, ci, kind, grl)
					}
				}
			}
			for p := range own {
				if _, ok := blueNodes[p]; ok {
					t.Fatalf("CONFIRMED: instance %d of corpus entry %d reaches a blueprint node from its rule entries\n%s", idx+1, ci, grl)
				}
			}
			for k, n := range blueKeys {
				if keys[k] != n {
					t.Fatalf("CONFIRMED: instance %d of corpus entry %d does not file %q like the blueprint does\n%s", idx+1, ci, k, grl)
				}
			}
			blueShape, shape := wmCloneIndexShape(blue), wmCloneIndexShape(inst)
			for k, want := range blueShape {
				cases++
				if got, ok := shape[k]; !ok || got != want {
					t.Fatalf("CONFIRMED: instance %d of corpus entry %d lists under %q [%s], the blueprint [%s] (what an assignment to that variable forgets differs between instance and library)\n%s", idx+1, ci, k, got, want, grl)
				}
			}
			if len(shape) != len(blueShape) {
				t.Fatalf("CONFIRMED: instance %d of corpus entry %d indexes %d variables, the blueprint %d\n%s", idx+1, ci, len(shape), len(blueShape), grl)
			}
			if len(keys) != len(blueKeys) {
				t.Fatalf("CONFIRMED: instance %d of corpus entry %d files %d snapshot keys, the blueprint %d\n%s", idx+1, ci, len(keys), len(blueKeys), grl)
			}
		}
		// re-use: the second run of instance 1 on new facts equals the first run of a fresh instance on them
		facts := []wmCloneFact{{Arr: []int64{1, 2, 9}, M: map[string]int64{"k": 0}}, {A: 1, B: 0, I: 1, Arr: []int64{7, 0, 3}, M: map[string]int64{"k": 2}}}
		for _, f := range facts {
			wmCloneRun(i1, f)
		}
		for _, f := range facts {
			cases++
			got, gerr := wmCloneRun(i1, f)
			fresh, _ := lib.NewKnowledgeBaseInstance("K", "1")
			want, werr := wmCloneRun(fresh, f)
			if fmt.Sprintf("%+v", got) != fmt.Sprintf("%+v", want) || gerr != werr {
				t.Fatalf("CONFIRMED: a re-used instance of corpus entry %d gives %+v (%s), a fresh one %+v (%s) on %+v\n%s", ci, got, gerr, want, werr, f, grl)
			}
		}
	}
	t.Logf("BOUNDED-CASES: %d", cases)
}

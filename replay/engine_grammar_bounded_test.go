package engine

// BOUNDED stand-in (not a proof) for the ANTLR-generated GRL recogniser, which no contract reaches (T-ANTLR): the two things
// C05 says about it that can be stated against the published documentation -
//   * TestBoundedPrecedence: `a op1 b op2 c` groups as docs/en/GRL_en.md's precedence table says (5: * / % &, 4: + - |,
//     2: &&, 1: ||; equal levels associate to the left), for every ordered pair of the integer operators * % & + - | over
//     12 operand triples chosen so that the two groupings give different values, and for && / ||;
//   * TestBoundedLiterals: every literal listed in docs/en/GRL_Literals_en.md denotes its Go value (and the one literal listed
//     as an error is rejected), as an assigned value and inside a condition.
// Each test reports ALL its failures in one line, in a fixed order, so that a listed known finding is exactly one set of failures
// and any other set is a different violation.

import (
	"fmt"
	"math"
	"sort"
	"strings"
	"testing"

	"github.com/hyperjumptech/grule-rule-engine/ast"
	"github.com/hyperjumptech/grule-rule-engine/builder"
	"github.com/hyperjumptech/grule-rule-engine/pkg"
)

type boundedGrammarFact struct {
	I    int64
	X    float64
	B    bool
	Go   int64
	Seen bool
}

func boundedGrammarRun(then string, when string) (*boundedGrammarFact, error) {
	if when == "" {
		when = "F.Go == 0"
	}
	grl := `rule L "l" { when ` + when + ` then ` + then + ` F.Go = 1; F.Seen = true; }`
	lib := ast.NewKnowledgeLibrary()
	var err error
	func() {
		defer func() {
			if r := recover(); r != nil {
				err = fmt.Errorf("panic: %v", r)
			}
		}()
		err = builder.NewRuleBuilder(lib).BuildRuleFromResource("K", "1", pkg.NewBytesResource([]byte(grl)))
	}()
	if err != nil {
		return nil, fmt.Errorf("rejected")
	}
	kb, err := lib.NewKnowledgeBaseInstance("K", "1")
	if err != nil {
		return nil, err
	}
	f := &boundedGrammarFact{}
	d := ast.NewDataContext()
	d.Add("F", f)
	e := NewGruleEngine()
	e.MaxCycle = 3
	if err := e.Execute(d, kb); err != nil {
		return f, err
	}
	return f, nil
}

func boundedIntOp(op string, a, b int64) int64 {
	switch op {
	case "*":
		return a * b
	case "%":
		return a % b
	case "&":
		return a & b
	case "+":
		return a + b
	case "-":
		return a - b
	default:
		return a | b
	}
}

func TestBoundedPrecedence(t *testing.T) {
	level := map[string]int{"*": 5, "%": 5, "&": 5, "+": 4, "-": 4, "|": 4}
	ops := []string{"*", "%", "&", "+", "-", "|"}
	triples := [][3]int64{{6, 1, 2}, {7, 3, 2}, {12, 5, 3}, {9, 4, 6}, {10, 7, 4}, {5, 6, 3}, {13, 2, 7}, {8, 12, 5}, {3, 5, 9}, {14, 9, 4}, {11, 6, 13}, {2, 15, 8}}
	cases, pairs := 0, 0
	var bad []string
	for _, o1 := range ops {
		for _, o2 := range ops {
			informative := 0
			wrong := 0
			for _, tr := range triples {
				a, b, c := tr[0], tr[1], tr[2]
				if (o1 == "%" && b == 0) || (o2 == "%" && c == 0) || (o2 == "%" && boundedIntOp(o1, a, b) == 0) {
					continue
				}
				left := boundedIntOp(o2, boundedIntOp(o1, a, b), c)
				var right int64
				if o1 == "%" && boundedIntOp(o2, b, c) == 0 {
					continue
				} else {
					right = boundedIntOp(o1, a, boundedIntOp(o2, b, c))
				}
				if left == right {
					continue
				}
				want := left
				if level[o2] > level[o1] {
					want = right
				}
				f, err := boundedGrammarRun(fmt.Sprintf("F.I = %d %s %d %s %d;", a, o1, b, o2, c), "")
				cases++
				informative++
				if err != nil || f == nil || f.I != want {
					wrong++
				}
			}
			if informative == 0 {
				continue // an associative pair (a * b * c, a + b + c, ...): both groupings agree on every triple
			}
			pairs++
			if wrong > 0 {
				bad = append(bad, fmt.Sprintf("[a %s b %s c]", o1, o2))
			}
		}
	}
	// && binds tighter than ||, both associate to the left
	for _, lc := range []struct {
		expr string
		want bool
	}{{"true || false && false", true}, {"false && false || true", true}, {"false && true || false && true || true", true}, {"true || true && false", true}, {"false || true && false", false}} {
		f, err := boundedGrammarRun("F.B = "+lc.expr+";", "")
		cases++
		if err != nil || f == nil || f.B != lc.want {
			bad = append(bad, "["+lc.expr+"]")
		}
	}
	if len(bad) > 0 {
		t.Fatalf("CONFIRMED: %d operator pair(s) do not group as the published precedence table says: %s", len(bad), strings.Join(bad, " "))
	}
	fmt.Printf("BOUNDED-CASES: %d expressions over %d informative operator pairs + 5 logical chains\n", cases, pairs)
}

func TestBoundedLiterals(t *testing.T) {
	ints := map[string]int64{"0": 0, "123": 123, "34592": 34592, "-1": -1, "-47234": -47234,
		"01": 1, "07": 7, "010": 8, "017": 15, "-034": -28, "-045": -37,
		"0x1": 1, "0xF": 15, "0x10": 16, "0x1F": 31, "0xFF00": 0xFF00, "-0x12": -0x12, "-0x00ABCD": -0xABCD, "-0x890AbCdEf": -0x890AbCdEf}
	floats := map[string]float64{"0.": 0, "72.40": 72.40, "072.40": 72.40, "2.71828": 2.71828, "1.e+0": 1, "6.67428e-11": 6.67428e-11, "1E6": 1e6,
		".25": .25, ".12345E+5": .12345e+5, "-072.40": -72.40, "-2.71828": -2.71828, "-1.e+0": -1,
		"0x1p-2": 0x1p-2, "0x2.p10": 0x2.p10, "0x1.Fp+0": 0x1.Fp+0, "0X.8p-0": 0x.8p-0, "0X_1FFFP-16": 0x_1FFFp-16}
	bools := map[string]bool{"true": true, "TRUE": true, "True": true, "TrUe": true, "false": false, "False": false, "FALSE": false, "FaLsE": false}
	cases := 0
	var bad []string
	for lit, want := range ints {
		f, err := boundedGrammarRun("F.I = "+lit+";", "")
		cases++
		if err != nil || f == nil || f.I != want {
			bad = append(bad, lit)
			continue
		}
		f, err = boundedGrammarRun("F.I = 1;", fmt.Sprintf("F.Go == 0 && %d == %s", want, lit))
		cases++
		if err != nil || f == nil || !f.Seen {
			bad = append(bad, lit+" (in a condition)")
		}
	}
	for lit, want := range floats {
		f, err := boundedGrammarRun("F.X = "+lit+";", "")
		cases++
		if err != nil || f == nil || math.Abs(f.X-want) > 1e-12*math.Abs(want) {
			bad = append(bad, lit)
		}
	}
	for lit, want := range bools {
		f, err := boundedGrammarRun("F.B = "+lit+";", "")
		cases++
		if err != nil || f == nil || f.B != want || !f.Seen {
			bad = append(bad, lit)
		}
	}
	// listed as an error
	cases++
	if f, err := boundedGrammarRun("F.I = 04328;", ""); err == nil && f != nil && f.Seen {
		bad = append(bad, "04328 (accepted)")
	}
	sort.Strings(bad)
	if len(bad) > 0 {
		t.Fatalf("CONFIRMED: %d documented literal notation(s) do not denote their Go value (or are rejected): %s", len(bad), strings.Join(bad, "  "))
	}
	fmt.Printf("BOUNDED-CASES: %d literal uses\n", cases)
}

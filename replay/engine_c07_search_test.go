package engine

// Bounded concrete search for C07: near-identical sibling rules differing in one constant must behave as when built alone.

import (
	"fmt"
	"testing"

	"github.com/hyperjumptech/grule-rule-engine/ast"
	"github.com/hyperjumptech/grule-rule-engine/builder"
	"github.com/hyperjumptech/grule-rule-engine/pkg"
)

type replayC07Fact struct {
	X     float64
	S     string
	A, B  bool
}

// Cat concatenates (used to probe argument-list snapshots).
func (f *replayC07Fact) Cat(a, b string) string { return a + "|" + b }

func replayC07Run(grl string, f replayC07Fact) (replayC07Fact, error) {
	lib := ast.NewKnowledgeLibrary()
	if err := builder.NewRuleBuilder(lib).BuildRuleFromResource("K", "1", pkg.NewBytesResource([]byte(grl))); err != nil {
		return f, err
	}
	kb, err := lib.NewKnowledgeBaseInstance("K", "1")
	if err != nil {
		return f, fmt.Errorf("instance: %w", err)
	}
	d := ast.NewDataContext()
	d.Add("F", &f)
	g := replayC07Fact{X: f.X + 1, S: f.S + "g"}
	d.Add("G", &g)
	e := NewGruleEngine()
	e.MaxCycle = 10
	err = e.Execute(d, kb)
	return f, err
}

func TestReplaySearchSiblingConstants(t *testing.T) {
	pairs := []struct{ c1, c2 string; fact replayC07Fact }{
		{"F.X > 0.0000001", "F.X > 0.0000002", replayC07Fact{X: 1.5e-7}},
		{"F.X > 1.0000001", "F.X > 1.0000002", replayC07Fact{X: 1.00000015}},
		{`F.S == "a"`, `F.S == "a "`, replayC07Fact{S: "a"}},
		{"F.X > 1", "F.X > 1.0", replayC07Fact{X: 2}},
		// composite snapshots: operand order, operator spelling, negation, owner of a member, argument lists
		{`F.S + "x" == "ax"`, `"x" + F.S == "ax"`, replayC07Fact{S: "a"}},
		{`F.X - 1 > 0`, `1 - F.X > 0`, replayC07Fact{X: 3}},
		{"F.X >= 2", "F.X > 2", replayC07Fact{X: 2}},
		{"F.X <= 2", "F.X < 2", replayC07Fact{X: 2}},
		{"F.X == 2", "F.X != 2", replayC07Fact{X: 2}},
		{"!(F.X > 1)", "(F.X > 1)", replayC07Fact{X: 2}},
		{"F.X > 1 || F.X < 0", "F.X > 1 && F.X < 0", replayC07Fact{X: 2}},
		{`F.S == "a"`, `G.S == "a"`, replayC07Fact{S: "a"}},
		{`F.Cat("a", "bc") == "a|bc"`, `F.Cat("ab", "c") == "a|bc"`, replayC07Fact{}},
		{`F.Cat("a", "b") == "a|b"`, `F.Cat("b", "a") == "a|b"`, replayC07Fact{}},
		{`F.S.ToUpper() == "A"`, `F.S.ToLower() == "A"`, replayC07Fact{S: "a"}},
	}
	for _, p := range pairs {
		r1 := fmt.Sprintf(`rule R1 "1" { when (%s) && !F.A then F.A = true; }`, p.c1)
		r2 := fmt.Sprintf(`rule R2 "2" { when (%s) && !F.B then F.B = true; }`, p.c2)
		a1, e1 := replayC07Run(r1, p.fact)
		a2, e2 := replayC07Run(r2, p.fact)
		for _, both := range []string{r1 + "\n" + r2, r2 + "\n" + r1} {
			ab, eb := replayC07Run(both, p.fact)
			if e1 != nil || e2 != nil {
				continue
			}
			if eb != nil || ab.A != a1.A || ab.B != a2.B {
				t.Fatalf("CONFIRMED: rules behave differently together than alone:\n%s\nalone: R1 fired=%v R2 fired=%v; together: R1 fired=%v R2 fired=%v err=%v (fact %+v)", both, a1.A, a2.B, ab.A, ab.B, eb, p.fact)
			}
		}
	}
}

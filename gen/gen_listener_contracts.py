#!/usr/bin/env python3
"""Generates the template contracts of the GRL parser listener callbacks (C17/C20): under the listener invariant and a non-nil
parse-tree node each callback does not panic, keeps the invariant, and never drops a reported error. Callback-specific
clauses are in EXTRA; the two callbacks that carry the C07 filing discipline keep their precise frames (KEEP)."""
import re
src = open('/repo/antlr/GruleParserV3Listener.go').read()
KEEP = {'ExitExpression', 'ExitExpressionAtom'}
REQ = {
 'EnterFunctionCall': 'antlr_SIMPLENAME(ctx) != nil',
 'ExitMemberVariable': 'antlr_SIMPLENAME(ctx) != nil',
 'ExitRuleEntry': '(antlr_RuleDescription(ctx) != nil ==> len(antlr_GetText(antlr_RuleDescription(ctx))) >= 2) && (thisListener.Stack.length >= 2 && typeof(thisListener.Stack.top.prev.value) == typeid(*ast.Grl) ==> thisListener.Stack.top.prev.value == thisListener.Grl)',
 'ExitGrl': 'thisListener.Grl != nil',
}
EXTRA = {
 'ExitRuleEntry': ['// C17: the entry is filed under the name the text declares; a second rule of that name is an error, never a silent overwrite',
   '//@   ensures[C17] named: !old(thisListener.StopParse) && old(thisListener.Stack.length) > 0 && old(thisListener.Stack.top.value) != nil && typeof(old(thisListener.Stack.top.value)) == typeid(*ast.RuleEntry) && antlr_RuleName(ctx) != nil ==> as(old(thisListener.Stack.top.value), *ast.RuleEntry).RuleName == antlr_GetText(antlr_RuleName(ctx))',
   '//@   ensures[C17] filed: !old(thisListener.StopParse) && old(thisListener.Stack.length) > 0 && old(thisListener.Stack.top.value) != nil && typeof(old(thisListener.Stack.top.value)) == typeid(*ast.RuleEntry) && old(thisListener.Stack.length) >= 2 && old(thisListener.Stack.top.prev.value) == thisListener.Grl && thisListener.Grl != nil && typeof(thisListener.Grl) == typeid(*ast.Grl) && old(thisListener.Grl.RuleEntries) != nil ==> len(thisListener.ErrorCallback.Errors) > old(len(thisListener.ErrorCallback.Errors)) || (has(thisListener.Grl.RuleEntries, as(old(thisListener.Stack.top.value), *ast.RuleEntry).RuleName) && thisListener.Grl.RuleEntries[as(old(thisListener.Stack.top.value), *ast.RuleEntry).RuleName] == as(old(thisListener.Stack.top.value), *ast.RuleEntry))',
   '//@   ensures[C17] nooverwrite: !old(thisListener.StopParse) && old(thisListener.Stack.length) > 0 && old(thisListener.Stack.top.value) != nil && typeof(old(thisListener.Stack.top.value)) == typeid(*ast.RuleEntry) && old(thisListener.Stack.length) >= 2 && old(thisListener.Stack.top.prev.value) == thisListener.Grl && thisListener.Grl != nil && typeof(thisListener.Grl) == typeid(*ast.Grl) && old(thisListener.Grl.RuleEntries) != nil ==> forall k string :: old(has(thisListener.Grl.RuleEntries, k)) ==> has(thisListener.Grl.RuleEntries, k) && thisListener.Grl.RuleEntries[k] == old(thisListener.Grl.RuleEntries[k])'],
 'EnterMulDivOperators': ['// C05: the documented operator table - which token text selects which operator of the expression being built', '//@   ensures[C05,C17] optable: !old(thisListener.StopParse) && old(thisListener.Stack.length) > 0 && old(thisListener.Stack.top.value) != nil && typeof(old(thisListener.Stack.top.value)) == typeid(*ast.Expression) ==> (antlr_GetText(ctx) == "*" ==> as(old(thisListener.Stack.top.value), *ast.Expression).Operator == ast.OpMul) && (antlr_GetText(ctx) == "/" ==> as(old(thisListener.Stack.top.value), *ast.Expression).Operator == ast.OpDiv) && (antlr_GetText(ctx) == "%" ==> as(old(thisListener.Stack.top.value), *ast.Expression).Operator == ast.OpMod)'],
 'EnterAddMinusOperators': ['// C05: the documented operator table - which token text selects which operator of the expression being built', '//@   ensures[C05,C17] optable: !old(thisListener.StopParse) && old(thisListener.Stack.length) > 0 && old(thisListener.Stack.top.value) != nil && typeof(old(thisListener.Stack.top.value)) == typeid(*ast.Expression) ==> (antlr_GetText(ctx) == "+" ==> as(old(thisListener.Stack.top.value), *ast.Expression).Operator == ast.OpAdd) && (antlr_GetText(ctx) == "-" ==> as(old(thisListener.Stack.top.value), *ast.Expression).Operator == ast.OpSub) && (antlr_GetText(ctx) == "|" ==> as(old(thisListener.Stack.top.value), *ast.Expression).Operator == ast.OpBitOr) && (antlr_GetText(ctx) == "&" ==> as(old(thisListener.Stack.top.value), *ast.Expression).Operator == ast.OpBitAnd)'],
 'EnterComparisonOperator': ['// C05: the documented operator table - which token text selects which operator of the expression being built', '//@   ensures[C05,C17] optable: !old(thisListener.StopParse) && old(thisListener.Stack.length) > 0 && old(thisListener.Stack.top.value) != nil && typeof(old(thisListener.Stack.top.value)) == typeid(*ast.Expression) ==> (antlr_GetText(ctx) == "<" ==> as(old(thisListener.Stack.top.value), *ast.Expression).Operator == ast.OpLT) && (antlr_GetText(ctx) == "<=" ==> as(old(thisListener.Stack.top.value), *ast.Expression).Operator == ast.OpLTE) && (antlr_GetText(ctx) == ">" ==> as(old(thisListener.Stack.top.value), *ast.Expression).Operator == ast.OpGT) && (antlr_GetText(ctx) == ">=" ==> as(old(thisListener.Stack.top.value), *ast.Expression).Operator == ast.OpGTE) && (antlr_GetText(ctx) == "==" ==> as(old(thisListener.Stack.top.value), *ast.Expression).Operator == ast.OpEq) && (antlr_GetText(ctx) == "!=" ==> as(old(thisListener.Stack.top.value), *ast.Expression).Operator == ast.OpNEq)'],
 'EnterAndLogicOperator': ['//@   ensures[C05,C17] optable: !old(thisListener.StopParse) && old(thisListener.Stack.length) > 0 && old(thisListener.Stack.top.value) != nil && typeof(old(thisListener.Stack.top.value)) == typeid(*ast.Expression) ==> as(old(thisListener.Stack.top.value), *ast.Expression).Operator == ast.OpAnd'],
 'EnterOrLogicOperator': ['//@   ensures[C05,C17] optable: !old(thisListener.StopParse) && old(thisListener.Stack.length) > 0 && old(thisListener.Stack.top.value) != nil && typeof(old(thisListener.Stack.top.value)) == typeid(*ast.Expression) ==> as(old(thisListener.Stack.top.value), *ast.Expression).Operator == ast.OpOr'],
 'EnterGrl': ['//@   ensures entered: thisListener.Grl != nil'],
 'ExitGrl': ['//@   invariant@1 inv: LInv(thisListener) && KBInv(thisListener.KnowledgeBase) && RInv(thisListener) && thisListener.Grl == old(thisListener.Grl) && thisListener.Grl != nil',
             '//@   invariant@1 grlkept: forall k string :: has(thisListener.Grl.RuleEntries, k) == old(has(thisListener.Grl.RuleEntries, k)) && thisListener.Grl.RuleEntries[k] == old(thisListener.Grl.RuleEntries[k])',
             '//@   invariant@1 errorskept: errorsKept(thisListener)',
             '//@   invariant@1 sticky: old(thisListener.StopParse) ==> thisListener.StopParse'],
 'ExitIntegerLiteral': ['//@   ensures[C17] saliencevalue: fnok_ParseInt(antlr_GetText(ctx), 0, 64) && old(thisListener.Stack.length) > 0 && old(thisListener.Stack.top.value) != nil && typeof(old(thisListener.Stack.top.value)) == typeid(*ast.Salience) && fn_ParseInt_0(antlr_GetText(ctx), 0, 64) >= -2147483648 && fn_ParseInt_0(antlr_GetText(ctx), 0, 64) <= 2147483647 ==> as(old(thisListener.Stack.top.value), *ast.Salience).SalienceValue == fn_ParseInt_0(antlr_GetText(ctx), 0, 64)',
   '//@   ensures[C05,C17] literalkind: fnok_ParseInt(antlr_GetText(ctx), 0, 64) && old(thisListener.Stack.length) > 0 && old(thisListener.Stack.top.value) != nil && typeof(old(thisListener.Stack.top.value)) == typeid(*ast.Constant) ==> as(old(thisListener.Stack.top.value), *ast.Constant).Value.kind == 6',
   '//@   ensures[C17,C20] literalerr: !fnok_ParseInt(antlr_GetText(ctx), 0, 64) ==> thisListener.StopParse && len(thisListener.ErrorCallback.Errors) > old(len(thisListener.ErrorCallback.Errors))'],
 'ExitBooleanLiteral': ['//@   ensures[C05,C17] literalvalue: old(thisListener.Stack.length) > 0 && old(thisListener.Stack.top.value) != nil && typeof(old(thisListener.Stack.top.value)) == typeid(*ast.Constant) && !old(thisListener.StopParse) ==> as(old(thisListener.Stack.top.value), *ast.Constant).Value.kind == 1 && as(old(thisListener.Stack.top.value), *ast.Constant).Value.b == (str_lower(antlr_GetText(ctx)) == "true")'],
 'ExitFloatLiteral': ['//@   ensures[C05,C17] literalvalue: fnok_ParseFloat(antlr_GetText(ctx), 64) && old(thisListener.Stack.length) > 0 && old(thisListener.Stack.top.value) != nil && typeof(old(thisListener.Stack.top.value)) == typeid(*ast.Constant) ==> as(old(thisListener.Stack.top.value), *ast.Constant).Value.kind == 14 && as(old(thisListener.Stack.top.value), *ast.Constant).Value.f == fn_ParseFloat_0(antlr_GetText(ctx), 64)',
   '//@   ensures[C17,C20] literalerr: !fnok_ParseFloat(antlr_GetText(ctx), 64) ==> thisListener.StopParse && len(thisListener.ErrorCallback.Errors) > old(len(thisListener.ErrorCallback.Errors))'],
}
out = ['// ---- generated by /verif/gen/gen_listener_contracts.py: listener callbacks (template: no panic, invariant, errors kept) ----']
for m in re.finditer(r'^func \(thisListener \*GruleV3ParserListener\) (\w+)\((\w+) ([\w\.\*]+)\) \{', src, re.M):
    name, pn, pt = m.groups()
    if name in KEEP: continue
    out.append('//@ func (thisListener *GruleV3ParserListener) %s(%s) ()' % (name, pn))
    out.append('//@   serves C17 C20' + (' C05' if name in EXTRA and any('C05' in l for l in EXTRA[name]) else ''))
    out.append('//@   opt alloc=1')
    out.append('//@   requires LInv(thisListener) && RInv(thisListener) && %s != nil' % pn)
    if name in REQ:
        out.append('// T-ANTLR / walk order (ASSUMED): ' + ('children the grammar requires are present; below a rule entry the stack holds the listener\'s own Grl' if 'antlr_' in REQ[name] else 'EnterGrl ran before'))
        out.append('//@   requires ' + REQ[name])
    out.append('//@   nopanic')
    out.append('//@   modifies @listenerfx')
    out.append('//@   ensures inv: LInv(thisListener)')
    out.append('//@   ensures errorskept: errorsKept(thisListener)')
    out.append('//@   ensures sticky: old(thisListener.StopParse) ==> thisListener.StopParse')
    out.append('//@   ensures rules: RInv(thisListener) && (old(thisListener.Grl) != nil ==> thisListener.Grl != nil)')
    out += EXTRA.get(name, [])
open('/tmp/listener_gen.txt', 'w').write('\n'.join(out) + '\n')
print(len(out))

#!/usr/bin/env python3
"""Generates the C12 contracts of the 11 fixed-layout *Meta WriteMetaTo/ReadMetaFrom pairs from the STRUCT DECLARATIONS in
/repo/ast/Serializer.go (the layout oracle is the declared field order, not the code of either function)."""
import re, sys
src = open('/repo/ast/Serializer.go').read()
structs = {}
for m in re.finditer(r'type (\w+Meta) struct \{([^}]*)\}', src):
    fields = []
    for l in m.group(2).strip().split('\n'):
        l = l.strip()
        if not l or l == 'NodeMeta': continue
        n, t = l.split()[:2]
        fields.append((n, t))
    structs[m.group(1)] = fields
KIND = {'string': ('1', 'S'), 'int': ('2', 'I'), 'bool': ('3', 'B'), 'ValueType': ('2', 'I')}
out = []
def lay(name, fields, base=True):
    terms = []
    idx = 0
    pre = [('AstID', 'string'), ('GrlText', 'string'), ('Snapshot', 'string')] if base else []
    for n, t in pre + fields:
        k, arr = KIND[t]
        val = 'm.' + n
        if t == 'int': val = 'wrap_u64(m.%s)' % n
        terms.append('K[p+%d] == %s && %s[p+%d] == %s' % (idx, k, arr, idx, val))
        idx += 1
    return ' && '.join(terms), idx
def kinds(fields, base=True):
    pre = [('AstID', 'string'), ('GrlText', 'string'), ('Snapshot', 'string')] if base else []
    return ' && '.join('K[p+%d] == %s' % (i, KIND[t][0]) for i, (n, t) in enumerate(pre + fields))
fixed = [n for n, f in structs.items() if all(t in KIND for _, t in f)]
for name in fixed:
    fields = structs[name]
    base = name != 'NodeMeta'
    L, n = lay(name, fields, base)
    allf = ([('AstID', 'string'), ('GrlText', 'string'), ('Snapshot', 'string')] if base else []) + fields
    same = ' && '.join('a.%s == b.%s' % (f, f) for f, _ in allf)
    modf = name + '.*'
    rng = ' && '.join('-9223372036854775808 <= meta.%s && meta.%s <= 9223372036854775807' % (f, f) for f, t in fields if t == 'int')
    out.append('''
// ---- %(name)s: token layout = NodeMeta fields, then the struct's own fields in DECLARATION order ----
//@ macro func lay%(name)s(K array[int]int, S array[int]string, I array[int]int, B array[int]bool, p int, m *%(name)s) bool { return %(L)s }
//@ macro func kinds%(name)s(K array[int]int, p int) bool { return %(kinds)s }
//@ macro func same%(name)s(a *%(name)s, b *%(name)s) bool { return %(same)s }
//@ func (meta *%(name)s) WriteMetaTo(writer) (err)
//@   serves C12
//@   requires meta != nil && writer != nil%(rngreq)s
//@   nopanic
//@   modifies @wstream
//@   ensures[C12] encodes: err == nil ==> $wN == old($wN) + %(n)d && lay%(name)s($wK, $wS, $wI, $wB, old($wN), meta)
//@   ensures[C12] prefixkept: wPrefixKept(old($wN))
//@   ensures[C12] errorsurfaces: ($wErrN > old($wErrN)) == (err != nil) && $wErrN >= old($wErrN)
//@ func (meta *%(name)s) ReadMetaFrom(reader) (err)
//@   serves C12 C20
//@   requires meta != nil && reader != nil && $rPos >= 0
//@   nopanic
//@   modifies %(modf)s, @rstream
//@   ensures[C12] decodes: err == nil && kinds%(name)s($rK, old($rPos)) ==> $rPos == old($rPos) + %(n)d && lay%(name)sR($rK, $rS, $rI, $rB, old($rPos), meta)
//@   ensures[C12] completeloads: kinds%(name)s($rK, old($rPos)) && old($rPos) + %(n)d <= $rEnd ==> err == nil
//@   ensures[C12] truncationfails: err == nil ==> $rPos <= $rEnd && $rPos >= old($rPos)
//@ lemma[C12] mirror_%(name)s: forall K array[int]int, S array[int]string, I array[int]int, B array[int]bool, p int, a *%(name)s, b *%(name)s :: lay%(name)s(K, S, I, B, p, a) && lay%(name)sR(K, S, I, B, p, b)%(rnglem)s ==> same%(name)s(a, b)
''' % dict(name=name, L=L, n=n, kinds=kinds(fields, base), same=same, modf=modf,
           rngreq=(' && ' + rng) if rng else '', rnglem=(' && ' + rng.replace('meta.', 'a.')) if rng else ''))
    # reader-side layout: ints are converted back with int(uint64)
    LR = L
    for f, t in fields:
        if t == 'int':
            LR = LR.replace('== wrap_u64(m.%s)' % f, '>= 0 ==> m.%s == wrap_s64(I[p+%d])' % (f, [i for i,(ff,_) in enumerate(allf) if ff==f][0])).replace('I[p+%d] >= 0' % [i for i,(ff,_) in enumerate(allf) if ff==f][0], 'true')
    # simpler: build reader layout explicitly
    terms = []
    for i, (f, t) in enumerate(allf):
        k, arr = KIND[t]
        if t == 'int':
            terms.append('K[p+%d] == %s && m.%s == wrap_s64(%s[p+%d])' % (i, k, f, arr, i))
        else:
            terms.append('K[p+%d] == %s && %s[p+%d] == m.%s' % (i, k, arr, i, f))
    out.append('//@ macro func lay%sR(K array[int]int, S array[int]string, I array[int]int, B array[int]bool, p int, m *%s) bool { return %s }\n' % (name, name, ' && '.join(terms)))
print(''.join(out))

#!/usr/bin/env python3
"""Generates the C09 contracts of the node Clone methods. The fidelity oracle (which fields a clone must carry) is the
list of SEMANTIC fields of each node type below (scalars that determine behaviour + child links), not the code."""
T = {
 # type: (scalar fields, [(child field, child type)])
 'RuleEntry': (['GrlText','RuleName','RuleDescription','Salience','Deleted'], [('WhenScope','WhenScope'),('ThenScope','ThenScope')]),
 'WhenScope': (['GrlText'], [('Expression','Expression')]),
 'ThenScope': (['GrlText'], [('ThenExpressionList','ThenExpressionList')]),
 'ThenExpression': (['GrlText'], [('Assignment','Assignment'),('ExpressionAtom','ExpressionAtom')]),
 'Assignment': (['GrlText','IsAssign','IsPlusAssign','IsMinusAssign','IsDivAssign','IsMulAssign'], [('Variable','Variable'),('Expression','Expression')]),
 'Expression': (['GrlText','Operator','Negated'], [('LeftExpression','Expression'),('RightExpression','Expression'),('SingleExpression','Expression'),('ExpressionAtom','ExpressionAtom')]),
 'ExpressionAtom': (['GrlText','VariableName','Negated'], [('Constant','Constant'),('Variable','Variable'),('FunctionCall','FunctionCall'),('ExpressionAtom','ExpressionAtom'),('ArrayMapSelector','ArrayMapSelector')]),
 'Variable': (['GrlText','Name'], [('Variable','Variable'),('ArrayMapSelector','ArrayMapSelector')]),
 'ArrayMapSelector': (['GrlText'], [('Expression','Expression')]),
 'FunctionCall': (['GrlText','FunctionName'], [('ArgumentList','ArgumentList')]),
 'Constant': (['GrlText','Value'], []),
}
out = ['''
// =========================================================================================================
// C09: instances are faithful, isolated copies. $blue = the objects that existed when the clone table was created (the
// blueprint). Every Clone returns a FRESH object carrying the node's semantic scalars; each child link of the clone is the
// clone table's image of the origin's child (so sharing inside the blueprint stays sharing inside the instance, and NO link
// points back into the blueprint); existing table records are never overwritten; nothing that existed before is written
// (frame obligations over the entry allocation map: the fields of every node type are NOT in modifies).
// =========================================================================================================
//@ ghost var $blue array[Ref]bool
//@ macro func TableInv(t *pkg.CloneTable) bool { return t != nil && t.Records != nil && (forall id string :: has(t.Records, id) ==> t.Records[id] != nil && t.Records[id].CloneInstance != nil && !$blue[t.Records[id].CloneInstance] && allocated(t.Records[id].CloneInstance)) && (forall p Ref :: $blue[p] ==> allocated(p)) }
//@ macro func recordsKept(t *pkg.CloneTable) bool { return forall id string :: old(has(t.Records, id)) ==> has(t.Records, id) && t.Records[id] == old(t.Records[id]) && t.Records[id].CloneInstance == old(t.Records[id].CloneInstance) }
//@ macro func imageOf(t *pkg.CloneTable, id string) Ref { return t.Records[id].CloneInstance }
//@ extern func unique.NewID() (s)
//@   nopanic
//@ modset clonefx = map[string]*pkg.CloneRecord, pkg.CloneRecord.*, alloc
''']
for name, (scalars, kids) in T.items():
    sc = ' && '.join('c.%s == e.%s' % (f, f) for f in scalars)
    extra = ' && !c.Retracted' if name == 'RuleEntry' else ''
    kid = ' && '.join('(e.%s == nil ==> c.%s == nil) && (e.%s != nil ==> has(cloneTable.Records, e.%s.AstID) && c.%s == imageOf(cloneTable, e.%s.AstID))' % (f, f, f, f, f, f) for f, _ in kids)
    out.append('''
//@ func (e *%(n)s) Clone(cloneTable) (c)
//@   serves C09
//@   opt alloc=1
//@   requires e != nil && TableInv(cloneTable) && $blue[e]
//@   modifies @clonefx
//@   ensures[C09] fresh: fresh(c) && !$blue[c]
//@   ensures[C09] faithful: %(sc)s%(extra)s
%(kidline)s//@   ensures[C09] table: TableInv(cloneTable) && recordsKept(cloneTable)
''' % dict(n=name, sc=sc, extra=extra, kidline=('//@   ensures[C09] children: %s\n' % kid) if kids else ''))
print(''.join(out))

package main

// Replay: turn a solver model into concrete inputs and run the REAL code (go test -overlay, nothing written to /repo).

import (
	"bytes"
	"context"
	"encoding/json"
	"fmt"
	"math"
	"os"
	"os/exec"
	"path/filepath"
	"regexp"
	"strconv"
	"strings"
	"time"
)

// evalTerms asks a solver for the values of extra terms in a satisfiable query.
func evalTerms(query string, terms []string) map[string]string {
	if len(terms) == 0 {
		return nil
	}
	q := strings.Replace(query, "(get-model)", "(get-value ("+strings.Join(terms, " ")+"))", 1)
	file := filepath.Join(scratch(), "ev-"+hashStr(q)+".smt2")
	os.WriteFile(file, []byte(q), 0o644)
	defer os.Remove(file)
	for _, sd := range []solverDef{solvers[1], solvers[0], solvers[2]} {
		r := runOne(context.Background(), sd, file, 20)
		if r.Verdict != "sat" {
			continue
		}
		toks := sexpTokens(r.Model)
		// ((term value) (term value) ...)
		out := map[string]string{}
		if len(toks) == 0 || toks[0] != "(" {
			continue
		}
		i := 1
		k := 0
		for i < len(toks) && toks[i] == "(" && k < len(terms) {
			end := matchParen(toks, i)
			inner := toks[i+1 : end]
			// skip the term: it is one sexp
			var n int
			if inner[0] == "(" {
				n = matchParen(inner, 0) + 1
			} else {
				n = 1
			}
			val := strings.Join(inner[n:], " ")
			val = strings.ReplaceAll(strings.ReplaceAll(val, "( ", "("), " )", ")")
			out[terms[k]] = val
			k++
			i = end + 1
		}
		return out
	}
	return nil
}

type rvModel struct {
	Kind      int
	Bits      uint64
	F         float64
	S         string
	B         bool
	Typ       int
	Wall, Ext uint64
	Loc       int
}

func parseBV(s string) (uint64, bool) {
	s = strings.TrimSpace(s)
	if strings.HasPrefix(s, "#x") {
		v, err := strconv.ParseUint(s[2:], 16, 64)
		return v, err == nil
	}
	if strings.HasPrefix(s, "#b") {
		v, err := strconv.ParseUint(s[2:], 2, 64)
		return v, err == nil
	}
	if m := regexp.MustCompile(`^\(_ bv(\d+) \d+\)$`).FindStringSubmatch(s); m != nil {
		v, err := strconv.ParseUint(m[1], 10, 64)
		return v, err == nil
	}
	return 0, false
}

func parseIntVal(s string) (int, bool) {
	s = strings.TrimSpace(s)
	if m := regexp.MustCompile(`^\(- (\d+)\)$`).FindStringSubmatch(s); m != nil {
		v, err := strconv.Atoi(m[1])
		return -v, err == nil
	}
	v, err := strconv.Atoi(s)
	return v, err == nil
}

func parseFP(toks []string) (float64, bool) {
	s := strings.Join(toks, " ")
	s = strings.ReplaceAll(strings.ReplaceAll(s, "( ", "("), " )", ")")
	switch {
	case strings.HasPrefix(s, "(_ +zero"):
		return 0, true
	case strings.HasPrefix(s, "(_ -zero"):
		return math.Copysign(0, -1), true
	case strings.HasPrefix(s, "(_ +oo"):
		return math.Inf(1), true
	case strings.HasPrefix(s, "(_ -oo"):
		return math.Inf(-1), true
	case strings.HasPrefix(s, "(_ NaN"):
		return math.NaN(), true
	}
	if m := regexp.MustCompile(`^\(fp (#[xb][0-9a-fA-F]+) (#[xb][0-9a-fA-F]+) (#[xb][0-9a-fA-F]+)\)$`).FindStringSubmatch(s); m != nil {
		sg, _ := parseBV(m[1])
		ex, _ := parseBV(m[2])
		mn, _ := parseBV(m[3])
		return math.Float64frombits(sg<<63 | ex<<52 | mn), true
	}
	return 0, false
}

// parseRV parses "(mkRV kind bits f s b typ (mkTime wall ext loc) id)".
func parseRV(val string) (*rvModel, bool) {
	toks := sexpTokens(val)
	if len(toks) < 3 || toks[0] != "(" || toks[1] != "mkRV" {
		return nil, false
	}
	var fields [][]string
	i := 2
	for i < len(toks)-1 {
		if toks[i] == "(" {
			e := matchParen(toks, i)
			fields = append(fields, toks[i:e+1])
			i = e + 1
		} else {
			fields = append(fields, toks[i:i+1])
			i++
		}
	}
	if len(fields) != 8 {
		return nil, false
	}
	m := &rvModel{}
	var ok bool
	if m.Kind, ok = parseIntVal(strings.Join(fields[0], " ")); !ok {
		return nil, false
	}
	m.Bits, _ = parseBV(strings.Join(fields[1], " "))
	m.F, _ = parseFP(fields[2])
	m.S = strings.Join(fields[3], "")
	m.B = fields[4][0] == "true"
	m.Typ, _ = parseIntVal(strings.Join(fields[5], " "))
	tm := fields[6]
	if len(tm) >= 5 && tm[1] == "mkTime" {
		var parts [][]string
		j := 2
		for j < len(tm)-1 {
			if tm[j] == "(" {
				e := matchParen(tm, j)
				parts = append(parts, tm[j:e+1])
				j = e + 1
			} else {
				parts = append(parts, tm[j:j+1])
				j++
			}
		}
		if len(parts) == 3 {
			m.Wall, _ = parseBV(strings.Join(parts[0], " "))
			m.Ext, _ = parseBV(strings.Join(parts[1], " "))
			m.Loc, _ = parseIntVal(strings.Join(parts[2], " "))
		}
	}
	return m, true
}

// goValueExpr renders a Go expression that builds the reflect.Value described by the model.
func (m *rvModel) goValueExpr(timeTypeID int) string {
	fits := func(bits uint, signed bool) bool {
		if signed {
			v := int64(m.Bits)
			return v >= -(1<<(bits-1)) && v <= (1<<(bits-1))-1
		}
		return bits == 64 || m.Bits < (1<<bits)
	}
	switch {
	case m.Kind == 1:
		return fmt.Sprintf("reflect.ValueOf(%v)", m.B)
	case m.Kind >= 2 && m.Kind <= 6:
		names := map[int]string{2: "int", 3: "int8", 4: "int16", 5: "int32", 6: "int64"}
		width := map[int]uint{2: 64, 3: 8, 4: 16, 5: 32, 6: 64}
		k := m.Kind
		if !fits(width[k], true) {
			k = 6
		}
		return fmt.Sprintf("reflect.ValueOf(%s(%d))", names[k], int64(m.Bits))
	case m.Kind >= 7 && m.Kind <= 11:
		names := map[int]string{7: "uint", 8: "uint8", 9: "uint16", 10: "uint32", 11: "uint64"}
		width := map[int]uint{7: 64, 8: 8, 9: 16, 10: 32, 11: 64}
		k := m.Kind
		if !fits(width[k], false) {
			k = 11
		}
		return fmt.Sprintf("reflect.ValueOf(%s(%d))", names[k], m.Bits)
	case m.Kind == 13 || m.Kind == 14:
		fl := fmt.Sprintf("math.Float64frombits(0x%x)", math.Float64bits(m.F))
		if m.Kind == 13 && float64(float32(m.F)) == m.F {
			return "reflect.ValueOf(float32(" + fl + "))"
		}
		return "reflect.ValueOf(" + fl + ")"
	case m.Kind == 24:
		return fmt.Sprintf("reflect.ValueOf(%q)", "s"+regexp.MustCompile(`\D`).ReplaceAllString(m.S, ""))
	case m.Kind == 25 && m.Typ == timeTypeID:
		return fmt.Sprintf("reflect.ValueOf(replayMkTime(0x%x, 0x%x, %d))", m.Wall, m.Ext, m.Loc)
	}
	return ""
}

const replayTimeHelper = `
type replayTimeRepr struct {
	wall uint64
	ext  int64
	loc  *time.Location
}

var replayLocs = map[int]*time.Location{}

// replayMkTime builds a time.Time with exactly the model's wall/ext words; loc ids map to distinct locations
// with the same (zero) offset, so that the instant is unchanged.
func replayMkTime(wall, ext uint64, loc int) time.Time {
	var l *time.Location
	if loc != 0 {
		if replayLocs[loc] == nil {
			replayLocs[loc] = time.FixedZone(fmt.Sprintf("Z%d", loc), 0)
		}
		l = replayLocs[loc]
	}
	r := replayTimeRepr{wall, int64(ext), l}
	return *(*time.Time)(unsafe.Pointer(&r))
}

func replayValidTime(t time.Time) bool {
	r := *(*replayTimeRepr)(unsafe.Pointer(&t))
	return r.wall&(1<<30-1) < 1000000000
}
`

// runGoTest runs an injected in-package test on the real code.
func runGoTest(pkgDir, fileName, src, runPat string) (string, bool) {
	dir := scratch()
	testPath := filepath.Join(dir, fileName)
	os.WriteFile(testPath, []byte(src), 0o644)
	ov := map[string]map[string]string{"Replace": {filepath.Join(repoDir, pkgDir, fileName): testPath}}
	ovb, _ := json.Marshal(ov)
	ovPath := filepath.Join(dir, "overlay-"+hashStr(src)+".json")
	os.WriteFile(ovPath, ovb, 0o644)
	ctx, cancel := context.WithTimeout(context.Background(), 10*time.Minute)
	defer cancel()
	cmd := exec.CommandContext(ctx, "go", "test", "-overlay", ovPath, "-vet=off", "-count=1", "-timeout", "120s", "-v", "-run", runPat, "./"+pkgDir)
	cmd.Dir = repoDir
	cmd.Env = append(os.Environ(), "GOFLAGS=-mod=mod", "GOPROXY=off")
	var out bytes.Buffer
	cmd.Stdout, cmd.Stderr = &out, &out
	err := cmd.Run()
	return out.String(), err == nil
}

type replayFamily struct {
	match *regexp.Regexp
	run   func(w *World, pr *PropRun, fl *Failure, model map[string]string, query string) (confirmed bool, detail map[string]interface{})
}

var replayFamilies []replayFamily

func doReplay(w *World, pr *PropRun, fl *Failure) (path string, confirmed bool, note string) {
	content := map[string]interface{}{"obligation": fl.O.ID, "kind": fl.Kind, "clause": fl.O.Clause, "note": fl.Note}
	if fl.O.Res != nil {
		content["solver"] = fl.O.Res.Solver
		content["verdict"] = fl.O.Res.Verdict
		raw := fl.O.Res.Raw
		if len(raw) > 4000 {
			raw = raw[:4000] + "..."
		}
		content["solver_output"] = raw
	}
	var model map[string]string
	query := fl.O.Query
	if fl.O.Res != nil && fl.O.Res.Verdict == "sat" {
		model = parseModel(fl.O.Res.Model)
	} else if fl.Kind == "undecided" && query != "" {
		// candidate model from the query without quantified axioms (only trusted if it replays on the real code)
		q2 := stripQuantifiedAsserts(query)
		r := solve(q2, 20, false)
		if r.Verdict == "sat" {
			model = parseModel(r.Model)
			query = q2
			content["candidate_model_from"] = "query without quantified axioms (" + r.Solver + ")"
		}
	}
	if model != nil {
		ins := map[string]string{}
		for k, v := range model {
			if strings.HasPrefix(k, "v_in_") {
				ins[k] = v
			}
		}
		content["model_inputs"] = ins
	}
	ranFamily := false
	if fl.O.Func != "" {
		for _, fam := range replayFamilies {
			if fam.match.MatchString(fl.O.ID) {
				ranFamily = true
			}
		}
	}
	if !ranFamily {
		searchID := fl.O.ID
		if fl.Kind == "orphaned" && strings.HasPrefix(searchID, "orphaned:") {
			// the contract no longer fits the function (e.g. a loop was added): nothing is decided deductively, but the search
			// harnesses of that function's obligation families can still look for a failing input on the real code
			searchID = strings.TrimSuffix(strings.TrimPrefix(searchID, "orphaned:"), ":") + "#orphaned"
		}
		if ok, detail := runSearchHarness(searchID); detail != nil {
			for k, v := range detail {
				content[k] = v
			}
			confirmed = ok
		}
	}
	if fl.O.Func != "" {
		for _, fam := range replayFamilies {
			if fam.match.MatchString(fl.O.ID) {
				ok, detail := fam.run(w, pr, fl, model, query)
				for k, v := range detail {
					content[k] = v
				}
				confirmed = ok
				break
			}
		}
	}
	content["confirmed_on_real_code"] = confirmed
	if !confirmed {
		content["result"] = "no-failing-input-found"
	}
	path = writeReplayFile(pr.prop, fl.O.ID, content)
	return path, confirmed, ""
}

func stripQuantifiedAsserts(q string) string {
	var out []string
	for _, ln := range strings.Split(q, "\n") {
		if strings.HasPrefix(ln, "(assert (forall") || strings.HasPrefix(ln, "(assert (! (forall") {
			continue
		}
		out = append(out, ln)
	}
	return strings.Join(out, "\n")
}

// ---------------- family: comparison / arithmetic tables of pkg/reflectmath.go ----------------

func init() {
	replayFamilies = append(replayFamilies, replayFamily{
		match: regexp.MustCompile(`^pkg\.Evaluate(GreaterThan|LesserThan|GreaterThanEqual|LesserThanEqual|Equal|NotEqual)#`),
		run:   replayCompare,
	})
}

const cmpHarness = `package pkg

import (
	"fmt"
	"math"
	"reflect"
	"testing"
	"time"
	"unsafe"
)

var _ = math.Pi
var _ = unsafe.Sizeof(0)
var _ = time.Now
` + replayTimeHelper + `
// replayC19Check evaluates the six real comparison functions on (l, r) and on (r, l) and checks the
// consistency the property demands. It returns a description of the first inconsistency.
func replayC19Check(l, r reflect.Value) string {
	type six struct{ lt, eq, gt, le, ge, ne bool }
	eval := func(a, b reflect.Value) (s six, ok bool) {
		fs := []func(reflect.Value, reflect.Value) (reflect.Value, error){EvaluateLesserThan, EvaluateEqual, EvaluateGreaterThan, EvaluateLesserThanEqual, EvaluateGreaterThanEqual, EvaluateNotEqual}
		var res [6]bool
		for i, f := range fs {
			v, err := f(a, b)
			if err != nil || v.Kind() != reflect.Bool {
				return s, false
			}
			res[i] = v.Bool()
		}
		return six{res[0], res[1], res[2], res[3], res[4], res[5]}, true
	}
	a, ok1 := eval(l, r)
	b, ok2 := eval(r, l)
	if !ok1 || !ok2 {
		return ""
	}
	n := 0
	for _, x := range []bool{a.lt, a.eq, a.gt} {
		if x {
			n++
		}
	}
	desc := fmt.Sprintf("l=%#v (%s) r=%#v (%s): < %v == %v > %v <= %v >= %v != %v ; swapped: < %v == %v > %v", l.Interface(), l.Kind(), r.Interface(), r.Kind(), a.lt, a.eq, a.gt, a.le, a.ge, a.ne, b.lt, b.eq, b.gt)
	switch {
	case n != 1:
		return "trichotomy violated: " + desc
	case a.le != (a.lt || a.eq):
		return "<= is not (< or ==): " + desc
	case a.ge != (a.gt || a.eq):
		return ">= is not (> or ==): " + desc
	case a.ne != !a.eq:
		return "!= is not the negation of ==: " + desc
	case a.lt != b.gt || a.gt != b.lt || a.eq != b.eq:
		return "swapping the operands does not mirror the outcome: " + desc
	}
	return ""
}

func TestReplayC19Model(t *testing.T) {
	/*BODY*/
}

// TestReplayC19Search: bounded concrete search over a boundary-rich domain (used when the model does not replay).
func TestReplayC19Search(t *testing.T) {
	utc := time.Date(2024, 3, 1, 12, 0, 0, 0, time.UTC)
	vals := []interface{}{
		int(0), int(1), int(-1), int8(127), int8(-128), int16(-1), int32(math.MaxInt32), int64(math.MaxInt64), int64(math.MinInt64), int64(1) << 53, int64(1)<<53 + 1,
		uint(0), uint8(255), uint16(1), uint32(math.MaxUint32), uint64(math.MaxInt64), uint64(1) << 53,
		float32(0), float32(1.5), float64(-1), float64(0.5), float64(1 << 53), math.MaxFloat64, -math.MaxFloat64, math.Inf(1), math.Copysign(0, -1),
		"", "a", "b", "ab", true, false,
		utc, utc.In(time.FixedZone("X", 3600)), utc.Add(time.Nanosecond), utc.Add(-time.Hour), time.Now(), time.Now().Round(0),
	}
	n := 0
	for _, a := range vals {
		for _, b := range vals {
			n++
			if msg := replayC19Check(reflect.ValueOf(a), reflect.ValueOf(b)); msg != "" {
				t.Fatalf("CONFIRMED-BY-SEARCH after %d pairs: %s", n, msg)
			}
		}
	}
	t.Logf("searched %d pairs, no inconsistency", n)
}
`

func replayCompare(w *World, pr *PropRun, fl *Failure, model map[string]string, query string) (bool, map[string]interface{}) {
	detail := map[string]interface{}{"harness": "pkg/zz_replay_c19_test.go (injected with go test -overlay)"}
	body := `t.Skip("no model")`
	if model != nil {
		f := pr.ctxs[fl.O.Func]
		if f != nil {
			l, r := f.names0["left"].S, f.names0["right"].S
			terms := []string{"(strip " + l + ")", "(strip " + r + ")"}
			vals := evalTerms(query, terms)
			if vals != nil {
				lm, ok1 := parseRV(vals[terms[0]])
				rm, ok2 := parseRV(vals[terms[1]])
				tid := w.typeID(w.timeType())
				if ok1 && ok2 {
					le, re := lm.goValueExpr(tid), rm.goValueExpr(tid)
					detail["model_strip_left"] = vals[terms[0]]
					detail["model_strip_right"] = vals[terms[1]]
					if le != "" && re != "" {
						detail["go_inputs"] = []string{le, re}
						body = strings.NewReplacer("L_EXPR", le, "R_EXPR", re).Replace(`l, r := L_EXPR, R_EXPR
	for _, v := range []reflect.Value{l, r} {
		if tm, ok := v.Interface().(time.Time); ok && !replayValidTime(tm) {
			t.Skip("model time value is not a valid time.Time")
		}
	}
	if msg := replayC19Check(l, r); msg != "" {
		t.Fatalf("CONFIRMED: %s", msg)
	}`)
					}
				}
			}
		}
	}
	src := strings.Replace(cmpHarness, "/*BODY*/", body, 1)
	detail["harness_pkg"], detail["harness_file"], detail["harness_source"], detail["harness_run"] = "pkg", "zz_replay_c19_test.go", src, "TestReplayC19Model$|TestReplayC19Search$"
	out, _ := runGoTest("pkg", "zz_replay_c19_test.go", src, "TestReplayC19Model$")
	detail["replay_output"] = tailStr(out, 1500)
	if strings.Contains(out, "CONFIRMED:") {
		detail["failing_input"] = extractLine(out, "CONFIRMED:")
		return true, detail
	}
	out2, _ := runGoTest("pkg", "zz_replay_c19_test.go", src, "TestReplayC19Search$")
	detail["search_output"] = tailStr(out2, 1500)
	if strings.Contains(out2, "CONFIRMED-BY-SEARCH") {
		detail["failing_input"] = extractLine(out2, "CONFIRMED-BY-SEARCH")
		detail["found_by"] = "bounded concrete search (the solver model did not replay)"
		return true, detail
	}
	return false, detail
}

func tailStr(s string, n int) string {
	if len(s) > n {
		return "..." + s[len(s)-n:]
	}
	return s
}

func extractLine(out, marker string) string {
	for _, ln := range strings.Split(out, "\n") {
		if i := strings.Index(ln, marker); i >= 0 {
			return strings.TrimSpace(ln[i:])
		}
	}
	return ""
}

// cmdReplay re-runs the harness stored in a replay file against /repo's current tree.
func cmdReplay(args []string) int {
	if len(args) < 1 {
		fmt.Fprintln(os.Stderr, "replay <file>")
		return 2
	}
	b, err := os.ReadFile(args[0])
	if err != nil {
		fmt.Fprintln(os.Stderr, err)
		return 2
	}
	var c map[string]interface{}
	if json.Unmarshal(b, &c) != nil {
		return 2
	}
	fmt.Printf("obligation: %v\nclause: %v\nresult recorded: confirmed=%v %v\n", c["obligation"], c["clause"], c["confirmed_on_real_code"], c["failing_input"])
	src, _ := c["harness_source"].(string)
	if src == "" {
		fmt.Println("no executable harness recorded (no-failing-input-found); solver output is in the file")
		return 0
	}
	out, ok := runGoTest(c["harness_pkg"].(string), c["harness_file"].(string), src, c["harness_run"].(string))
	fmt.Println(out)
	if !ok {
		return 1
	}
	return 0
}

// ---------------- static search harnesses (/verif/replay/families.json) ----------------
// For obligations whose models live in ghost/heap abstractions, replay is a bounded concrete search: an in-package Go test
// that states the PROPERTY on the real code over a small domain and prints "CONFIRMED: <input>" when it is violated.

type searchFamily struct {
	Match  string `json:"match"`
	Pkg    string `json:"pkg"`
	File   string `json:"file"`   // template under /verif/replay/
	Run    string `json:"run"`    // -run pattern
	Inject string `json:"inject"` // file name to inject into the package
	// thorough-tier sweep only: run this harness under these properties only (empty: under every property with a matching obligation)
	Props []string `json:"props,omitempty"`
}

func runSearchHarness(oblID string) (bool, map[string]interface{}) {
	b, err := os.ReadFile(filepath.Join(verifDir, "replay", "families.json"))
	if err != nil {
		return false, nil
	}
	var fams []searchFamily
	if json.Unmarshal(b, &fams) != nil {
		return false, nil
	}
	var last map[string]interface{}
	tried := 0
	for _, fam := range fams {
		re, err := regexp.Compile(fam.Match)
		if err != nil || !re.MatchString(oblID) {
			continue
		}
		src, err := os.ReadFile(filepath.Join(verifDir, "replay", fam.File))
		if err != nil {
			continue
		}
		if tried++; tried > 3 {
			break
		}
		out, _ := runGoTest(fam.Pkg, fam.Inject, string(src), fam.Run)
		detail := map[string]interface{}{"harness": fam.Pkg + "/" + fam.Inject + " (bounded concrete search, injected with go test -overlay from /verif/replay/" + fam.File + ")",
			"harness_pkg": fam.Pkg, "harness_file": fam.Inject, "harness_source": string(src), "harness_run": fam.Run, "search_output": tailStr(out, 2000)}
		if strings.Contains(out, "CONFIRMED:") {
			line := extractLine(out, "CONFIRMED:")
			if harnessLineIsKnown(fam.Run, line) {
				// the harness stopped at an OPEN known finding (present on the unchanged tree too): not a replay of this obligation
				detail["note"] = "the harness stops at an open known finding (" + line + "); not counted as a replay of this obligation"
				last = detail
				continue
			}
			detail["failing_input"] = line
			detail["found_by"] = "bounded concrete search on the real code (the obligation's model lives in ghost/heap abstractions)"
			return true, detail
		}
		// no counterexample in this family's harness: a later family whose pattern also matches may still have one
		last = detail
	}
	return false, last
}

// harnessLineIsKnown: is this CONFIRMED line of harness run the witness of an open known finding (any property)?
func harnessLineIsKnown(run, line string) bool {
	for _, k := range loadKnown() {
		if k.Status != "open" || k.WitnessMatch == "" {
			continue
		}
		if re, err := regexp.Compile("^(?:" + k.Obligation + ")$"); err != nil || !re.MatchString("harness:"+run) {
			continue
		}
		if re, err := regexp.Compile(k.WitnessMatch); err == nil && re.MatchString(line) {
			return true
		}
	}
	return false
}

package main

import (
	"crypto/sha1"
	"fmt"
	"go/ast"
	"go/token"
	"go/types"
	"os"
	"path/filepath"
	"sort"
	"strings"
	"sync"

	"golang.org/x/tools/go/packages"
)

const grulePath = "github.com/hyperjumptech/grule-rule-engine"

type Sort = string

const (
	SBool = "Bool"
	SInt  = "Int"
	SBV64 = "BV64"
	SF64  = "F64"
	SF32  = "F32"
	SStr  = "GoStr"
	SRV   = "RV"
	STime = "Time"
)

type Term struct {
	S    string
	Sort Sort
	GoT  types.Type // optional static Go type
}

type FuncInfo struct {
	Pkg  *packages.Package
	Decl *ast.FuncDecl
	Obj  *types.Func
}

type World struct {
	shortIdx       map[string]string
	repo           string
	fset           *token.FileSet
	pkgs           map[string]*packages.Package // by import path (all transitively loaded)
	byName         map[string]*packages.Package
	targets        []*packages.Package
	contracts      map[string]*Contract // key: types.Func.FullName()
	conList        []*Contract
	conObj         map[*Contract]*types.Func
	funcs          map[string]*FuncInfo // key FullName
	specFuncs      map[string]*SpecFunc
	specOrder      []*SpecFunc
	axioms         []*Clause
	lemmas         []*Clause
	ghosts         map[string]GhostVar
	ghostOrd       []string
	consts         map[string]*CE
	rawSMT         []string
	trusted        []string
	sliceSorts     map[string]string // sort name -> elem sort
	sliceOrd       []string
	heapSorts      map[string]string // heap array name -> SMT sort
	heapOrd        []string
	strLits        map[string]string // literal -> const name
	strOrd         []string
	typeIDs        map[string]int
	typeOrd        []string
	warnings       []string
	axiomSMT       []string // translated axioms (filled by prepareGlobals)
	specSMT        []string // translated spec funcs
	intrinsicsUsed map[string]bool
	globalDecls    []string
	modsets        map[string][]string
	symOnce        sync.Once
	specSyms       []map[string]bool
	specName       []string
	axSyms         []map[string]bool
	userSym        map[string]bool
}

func loadWorld(repo string, overlay map[string][]byte, trustedDir string) (*World, error) {
	w := &World{repo: repo, pkgs: map[string]*packages.Package{}, byName: map[string]*packages.Package{},
		contracts: map[string]*Contract{}, funcs: map[string]*FuncInfo{}, specFuncs: map[string]*SpecFunc{},
		ghosts: map[string]GhostVar{}, consts: map[string]*CE{}, sliceSorts: map[string]string{}, heapSorts: map[string]string{},
		strLits: map[string]string{}, typeIDs: map[string]int{}, conObj: map[*Contract]*types.Func{}, intrinsicsUsed: map[string]bool{}}
	w.fset = token.NewFileSet()
	cfg := &packages.Config{
		Mode: packages.NeedName | packages.NeedFiles | packages.NeedSyntax | packages.NeedTypes | packages.NeedTypesInfo |
			packages.NeedImports | packages.NeedDeps,
		Dir: repo, Fset: w.fset, BuildFlags: []string{"-tags=verif"}, Overlay: overlay,
		Env: append(os.Environ(), "GOFLAGS=-mod=mod", "GOPROXY=off"),
	}
	pkgs, err := packages.Load(cfg, "./pkg", "./model", "./ast", "./engine", "./antlr", "./builder")
	if err != nil {
		return nil, err
	}
	for _, p := range pkgs {
		if len(p.Errors) > 0 {
			return nil, fmt.Errorf("package %s does not type-check: %v", p.PkgPath, p.Errors[0])
		}
	}
	w.targets = pkgs
	packages.Visit(pkgs, nil, func(p *packages.Package) {
		w.pkgs[p.PkgPath] = p
		if old, ok := w.byName[p.Name]; ok {
			// prefer grule packages, then shorter path (stdlib)
			if strings.HasPrefix(old.PkgPath, grulePath) {
				return
			}
			if !strings.HasPrefix(p.PkgPath, grulePath) && len(old.PkgPath) <= len(p.PkgPath) {
				return
			}
		}
		w.byName[p.Name] = p
	})
	// index functions of target packages
	for _, p := range pkgs {
		for _, f := range p.Syntax {
			for _, d := range f.Decls {
				fd, ok := d.(*ast.FuncDecl)
				if !ok || fd.Body == nil {
					continue
				}
				obj, _ := p.TypesInfo.Defs[fd.Name].(*types.Func)
				if obj == nil {
					continue
				}
				w.funcs[obj.FullName()] = &FuncInfo{Pkg: p, Decl: fd, Obj: obj}
			}
		}
	}
	// contract files
	var specFiles []*SpecFile
	for _, p := range pkgs {
		dir := filepath.Join(repo, strings.TrimPrefix(strings.TrimPrefix(p.PkgPath, grulePath), "/"))
		cf := filepath.Join(dir, "zz_contracts_verif.go")
		var sf *SpecFile
		if ov, ok := overlay[cf]; ok {
			tmp := filepath.Join(scratch(), "ov-"+p.Name+".go")
			os.WriteFile(tmp, ov, 0o644)
			sf, err = parseSpecFile(tmp, true, p.Name)
		} else if _, e := os.Stat(cf); e == nil {
			sf, err = parseSpecFile(cf, true, p.Name)
		} else {
			continue
		}
		if err != nil {
			return nil, err
		}
		specFiles = append(specFiles, sf)
	}
	tfiles, _ := filepath.Glob(filepath.Join(trustedDir, "*.spec"))
	sort.Strings(tfiles)
	for _, tf := range tfiles {
		sf, err := parseSpecFile(tf, false, "")
		if err != nil {
			return nil, err
		}
		// everything in a trusted file is trusted
		for _, c := range sf.Contracts {
			c.Extern = true
		}
		specFiles = append(specFiles, sf)
	}
	modsets := map[string][]string{}
	for _, sf := range specFiles {
		for k, v := range sf.ModSets {
			modsets[k] = v
		}
	}
	var expand func(items []string, depth int) ([]string, error)
	expand = func(items []string, depth int) ([]string, error) {
		var out []string
		for _, it := range items {
			if strings.HasPrefix(it, "@") {
				ms, ok := modsets[it[1:]]
				if !ok || depth > 8 {
					return nil, fmt.Errorf("unknown modset %s", it)
				}
				sub, err := expand(ms, depth+1)
				if err != nil {
					return nil, err
				}
				out = append(out, sub...)
			} else {
				out = append(out, it)
			}
		}
		return out, nil
	}
	w.modsets = map[string][]string{}
	for k, v := range modsets {
		ex, err := expand(v, 0)
		if err != nil {
			return nil, err
		}
		w.modsets[k] = ex
	}
	for _, sf := range specFiles {
		for _, c := range sf.Contracts {
			ex, err := expand(c.Modifies, 0)
			if err != nil {
				return nil, fmt.Errorf("%s: %s: %v", c.File, c.Header, err)
			}
			c.Modifies = ex
		}
	}
	for _, sf := range specFiles {
		for _, f := range sf.Funcs {
			if _, dup := w.specFuncs[f.Name]; dup {
				return nil, fmt.Errorf("duplicate spec function %s", f.Name)
			}
			w.specFuncs[f.Name] = f
			w.specOrder = append(w.specOrder, f)
		}
		w.axioms = append(w.axioms, sf.Axioms...)
		w.lemmas = append(w.lemmas, sf.Lemmas...)
		for _, g := range sf.Ghosts {
			w.ghosts[g.Name] = g
			w.ghostOrd = append(w.ghostOrd, g.Name)
		}
		for k, v := range sf.Consts {
			w.consts[k] = v
		}
		w.rawSMT = append(w.rawSMT, sf.RawSMT...)
		w.trusted = append(w.trusted, sf.Trusted...)
		for _, c := range sf.Contracts {
			obj, err := w.resolveFunc(c)
			if err != nil {
				return nil, fmt.Errorf("%s: %s: %v", c.File, c.Header, err)
			}
			key := obj.FullName()
			if _, dup := w.contracts[key]; dup {
				return nil, fmt.Errorf("duplicate contract for %s", key)
			}
			w.contracts[key] = c
			w.conObj[c] = obj
			w.conList = append(w.conList, c)
			sig := obj.Type().(*types.Signature)
			if len(c.Params) != sig.Params().Len() || (len(c.Results) != sig.Results().Len()) {
				return nil, fmt.Errorf("%s: %s: header arity (%d params, %d results) does not match the Go signature %s",
					c.File, c.Header, len(c.Params), len(c.Results), sig.String())
			}
		}
	}
	return w, nil
}

func (w *World) pkgByName(name string) *packages.Package {
	if name == "" {
		return nil
	}
	if p, ok := w.pkgs[name]; ok {
		return p
	}
	if p, ok := w.pkgs[grulePath+"/"+name]; ok {
		return p
	}
	return w.byName[name]
}

// lookupType resolves a type expression like "*RuleEntry", "ast.RuleEntry", "io.Reader", "[]*Expression",
// "map[string]*RuleEntry" relative to package pkgName.
func (w *World) lookupType(pkgName, s string) (types.Type, error) {
	s = strings.TrimSpace(s)
	switch {
	case strings.HasPrefix(s, "*"):
		t, err := w.lookupType(pkgName, s[1:])
		if err != nil {
			return nil, err
		}
		return types.NewPointer(t), nil
	case strings.HasPrefix(s, "[]"):
		t, err := w.lookupType(pkgName, s[2:])
		if err != nil {
			return nil, err
		}
		return types.NewSlice(t), nil
	case strings.HasPrefix(s, "map["):
		depth := 0
		for i := 3; i < len(s); i++ {
			if s[i] == '[' {
				depth++
			} else if s[i] == ']' {
				depth--
				if depth == 0 {
					k, err := w.lookupType(pkgName, s[4:i])
					if err != nil {
						return nil, err
					}
					v, err := w.lookupType(pkgName, s[i+1:])
					if err != nil {
						return nil, err
					}
					return types.NewMap(k, v), nil
				}
			}
		}
		return nil, fmt.Errorf("bad map type %s", s)
	}
	if s == "interface{}" || s == "any" {
		return types.NewInterfaceType(nil, nil), nil
	}
	if i := strings.LastIndex(s, "."); i >= 0 {
		p := w.pkgByName(s[:i])
		if p == nil {
			return nil, fmt.Errorf("unknown package %s", s[:i])
		}
		o := p.Types.Scope().Lookup(s[i+1:])
		if o == nil {
			return nil, fmt.Errorf("unknown type %s", s)
		}
		return o.Type(), nil
	}
	if o := types.Universe.Lookup(s); o != nil {
		if tn, ok := o.(*types.TypeName); ok {
			return tn.Type(), nil
		}
	}
	p := w.pkgByName(pkgName)
	if p == nil {
		return nil, fmt.Errorf("no package scope for type %s", s)
	}
	o := p.Types.Scope().Lookup(s)
	if o == nil {
		return nil, fmt.Errorf("unknown type %s in package %s", s, pkgName)
	}
	if _, ok := o.(*types.TypeName); !ok {
		return nil, fmt.Errorf("%s is not a type", s)
	}
	return o.Type(), nil
}

func (w *World) resolveFunc(c *Contract) (*types.Func, error) {
	name := c.FuncName
	pkgName := c.PkgName
	if c.RecvType != "" {
		t, err := w.lookupType(pkgName, c.RecvType)
		if err != nil {
			return nil, err
		}
		ms := types.NewMethodSet(t)
		for i := 0; i < ms.Len(); i++ {
			if ms.At(i).Obj().Name() == name {
				return ms.At(i).Obj().(*types.Func), nil
			}
		}
		// try pointer receiver
		ms = types.NewMethodSet(types.NewPointer(t))
		for i := 0; i < ms.Len(); i++ {
			if ms.At(i).Obj().Name() == name {
				return ms.At(i).Obj().(*types.Func), nil
			}
		}
		return nil, fmt.Errorf("method %s not found on %s", name, c.RecvType)
	}
	if i := strings.LastIndex(name, "."); i >= 0 {
		pkgName = name[:i]
		name = name[i+1:]
	}
	p := w.pkgByName(pkgName)
	if p == nil {
		return nil, fmt.Errorf("unknown package %q", pkgName)
	}
	o := p.Types.Scope().Lookup(name)
	f, ok := o.(*types.Func)
	if !ok {
		return nil, fmt.Errorf("function %s not found in %s", name, pkgName)
	}
	return f, nil
}

// ---------------- sorts ----------------

func mangle(s string) string {
	r := strings.NewReplacer("(", "", ")", "", " ", "_", "*", "p").Replace(s)
	return r
}

func (w *World) sliceSort(elem Sort) Sort {
	name := "Slice_" + mangle(elem)
	if _, ok := w.sliceSorts[name]; !ok {
		w.sliceSorts[name] = elem
		w.sliceOrd = append(w.sliceOrd, name)
	}
	return name
}

func namedPath(t types.Type) string {
	t = types.Unalias(t)
	if n, ok := t.(*types.Named); ok && n.Obj().Pkg() != nil {
		return n.Obj().Pkg().Path() + "." + n.Obj().Name()
	}
	return ""
}

type unsupported struct{ msg string }

// valueStructs: struct types whose VALUES are modelled as references to a private object (see sortOf).
var valueStructs = map[string]bool{"github.com/hyperjumptech/grule-rule-engine/pkg.GruleJSON": true}

func unsup(format string, a ...interface{}) { panic(unsupported{fmt.Sprintf(format, a...)}) }

func (w *World) sortOf(t types.Type, bv bool) Sort {
	t = types.Unalias(t)
	switch namedPath(t) {
	case "reflect.Value":
		return SRV
	case "reflect.Kind":
		return SInt
	case "time.Time":
		return STime
	case "strings.Builder", "bytes.Buffer":
		return SStr
	}
	switch u := t.Underlying().(type) {
	case *types.Basic:
		switch {
		case u.Kind() == types.UntypedNil:
			return SInt
		case u.Info()&types.IsBoolean != 0:
			return SBool
		case u.Info()&types.IsString != 0:
			return SStr
		case u.Info()&types.IsInteger != 0:
			if bv {
				return SBV64
			}
			return SInt
		case u.Kind() == types.Float32:
			return SF64 // float32 values are modelled as the float64 they convert to (see DESIGN trusted base)
		case u.Info()&types.IsFloat != 0:
			return SF64
		case u.Kind() == types.UnsafePointer:
			return SInt
		}
	case *types.Pointer, *types.Interface, *types.Map, *types.Signature, *types.Chan:
		return SInt
	case *types.Slice:
		return w.sliceSort(w.sortOf(u.Elem(), bv))
	case *types.Array:
		return w.sliceSort(w.sortOf(u.Elem(), bv))
	case *types.Struct:
		if valueStructs[namedPath(t)] {
			// decode-target structs: a value is modelled as a reference to its own object (the functions under contract only
			// declare one, take its address, pass it to a decoder and read its fields - they never copy one)
			return SInt
		}
		unsup("struct value of type %s", t.String())
	case *types.Tuple:
		unsup("tuple sort")
	}
	unsup("no sort for type %s", t.String())
	return ""
}

// intWidth returns bit width and signedness for integer basic types.
func intInfo(t types.Type) (bits int, signed bool, ok bool) {
	b, isB := types.Unalias(t).Underlying().(*types.Basic)
	if !isB || b.Info()&types.IsInteger == 0 {
		return 0, false, false
	}
	switch b.Kind() {
	case types.Int8:
		return 8, true, true
	case types.Int16:
		return 16, true, true
	case types.Int32:
		return 32, true, true
	case types.Int, types.Int64, types.UntypedInt, types.UntypedRune:
		return 64, true, true
	case types.Uint8:
		return 8, false, true
	case types.Uint16:
		return 16, false, true
	case types.Uint32:
		return 32, false, true
	case types.Uint, types.Uint64, types.Uintptr:
		return 64, false, true
	}
	return 64, true, true
}

func (w *World) typeID(t types.Type) int {
	key := types.TypeString(types.Unalias(t), nil)
	if id, ok := w.typeIDs[key]; ok {
		return id
	}
	// content-based, stable across runs and across how much of the repository has been looked at (sequential numbers made the
	// text of a query depend on unrelated functions, which perturbs the solvers and defeats the cache)
	h := sha1.Sum([]byte(key))
	id := 1000 + int(h[0])<<16 + int(h[1])<<8 + int(h[2])
	for {
		clash := false
		for _, v := range w.typeIDs {
			if v == id {
				clash = true
			}
		}
		if !clash {
			break
		}
		id++
	}
	w.typeIDs[key] = id
	w.typeOrd = append(w.typeOrd, key)
	return id
}

func (w *World) strLit(s string) string {
	if c, ok := w.strLits[s]; ok {
		return c
	}
	h := sha1.Sum([]byte(s))
	c := fmt.Sprintf("strlit!%x", h[:5])
	for litText[c] != "" && litText[c] != s {
		c += "x"
	}
	w.strLits[s] = c
	w.strOrd = append(w.strOrd, s)
	litText[c] = s
	litWorld = w
	return c
}

// heap array for a struct field
func (w *World) fieldHeap(owner *types.Named, path string, ft types.Type, bv bool) (name string, sort Sort) {
	pk := "u"
	if owner.Obj().Pkg() != nil {
		pk = owner.Obj().Pkg().Name()
	}
	name = "H_" + pk + "_" + owner.Obj().Name() + "_" + strings.ReplaceAll(path, ".", "_")
	es := w.sortOf(ft, bv)
	sort = "(Array Int " + es + ")"
	if old, ok := w.heapSorts[name]; ok {
		if old != sort {
			unsup("heap field %s used at two sorts (%s, %s): int mode mismatch", name, old, sort)
		}
		return
	}
	w.heapSorts[name] = sort
	w.heapOrd = append(w.heapOrd, name)
	return
}

func typeMangle(t types.Type) string {
	s := types.TypeString(types.Unalias(t), func(p *types.Package) string { return p.Name() })
	return strings.NewReplacer("*", "p", "[]", "sl", "[", "_", "]", "_", ".", "_", " ", "", "{", "", "}", "", "(", "", ")", "", ",", "_").Replace(s)
}

// mapHeapsT: one triple of heap arrays per Go map TYPE (not per sort), so that maps of different types never alias.
func (w *World) mapHeapsT(m *types.Map, bv bool) (dom, val, ln string) {
	k, v := w.sortOf(m.Key(), bv), w.sortOf(m.Elem(), bv)
	sfx := typeMangle(m.Key()) + "_" + typeMangle(m.Elem())
	dom, val, ln = "Mdom_"+sfx, "Mval_"+sfx, "Mlen_"+sfx
	if _, ok := w.heapSorts[dom]; !ok {
		w.heapSorts[dom] = "(Array Int (Array " + k + " Bool))"
		w.heapSorts[val] = "(Array Int (Array " + k + " " + v + "))"
		w.heapSorts[ln] = "(Array Int Int)"
		w.heapOrd = append(w.heapOrd, dom, val, ln)
	}
	return
}

func (w *World) ensureHeap(name, sort string) {
	if _, ok := w.heapSorts[name]; !ok {
		w.heapSorts[name] = sort
		w.heapOrd = append(w.heapOrd, name)
	}
}

func (w *World) warn(format string, a ...interface{}) {
	w.warnings = append(w.warnings, fmt.Sprintf(format, a...))
}

func (w *World) timeType() types.Type {
	return w.pkgs["time"].Types.Scope().Lookup("Time").Type()
}

// reverse map of string literal constants (for syntactic normalisation of concatenations)
var litText = map[string]string{}
var litWorld *World

// shortIndex maps the short names of the repository's functions ("(*ast.Grl).ReceiveRuleEntry") to their keys.
func (w *World) shortIndex() map[string]string {
	if w.shortIdx == nil {
		w.shortIdx = map[string]string{}
		for k := range w.funcs {
			w.shortIdx[shortName(k)] = k
		}
	}
	return w.shortIdx
}

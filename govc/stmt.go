package main

import (
	"fmt"
	"go/ast"
	"go/token"
	"go/types"
	"sort"
	"strings"
)

func (f *FuncCtx) drain(fl *Flow) {
	if len(f.pend) > 0 {
		fl.Panics = append(fl.Panics, f.pend...)
		f.pend = nil
	}
}

func (f *FuncCtx) block(st *State, list []ast.Stmt) *Flow {
	out := &Flow{}
	cur := st
	for _, s := range list {
		if cur == nil {
			break
		}
		fl := f.stmt(cur, s)
		f.drain(fl)
		out.absorb(fl)
		cur = fl.Normal
	}
	out.Normal = cur
	return out
}

func (f *FuncCtx) stmt(st *State, s ast.Stmt) *Flow {
	switch x := s.(type) {
	case *ast.BlockStmt:
		return f.block(st, x.List)
	case *ast.ExprStmt:
		if call, ok := ast.Unparen(x.X).(*ast.CallExpr); ok {
			if id, ok := call.Fun.(*ast.Ident); ok && id.Name == "panic" {
				if _, isB := f.tinfo().Uses[id].(*types.Builtin); isB {
					for _, a := range call.Args {
						f.expr(st, a)
					}
					fl := &Flow{}
					f.drain(fl)
					if f.track {
						p := st
						p.ndefer = len(f.deferred)
						p.site = f.site("panic")
						fl.Panics = append(fl.Panics, p)
					}
					return fl
				}
			}
			f.call(st, call)
			return &Flow{Normal: st}
		}
		unsup("expression statement at %s", f.pos(s))
	case *ast.AssignStmt:
		f.assign(st, x)
		return &Flow{Normal: st}
	case *ast.IncDecStmt:
		cur := f.expr(st, x.X)
		one := f.constOne(cur.Sort)
		op := token.ADD
		if x.Tok == token.DEC {
			op = token.SUB
		}
		v := f.binop(st, op, cur, one, f.typeOf(x.X), f.typeOf(x.X), f.pos(x))
		f.assignTo(st, x.X, v)
		return &Flow{Normal: st}
	case *ast.DeclStmt:
		gd, ok := x.Decl.(*ast.GenDecl)
		if !ok || gd.Tok != token.VAR {
			if ok && (gd.Tok == token.CONST || gd.Tok == token.TYPE) {
				return &Flow{Normal: st}
			}
			unsup("declaration at %s", f.pos(s))
		}
		for _, sp := range gd.Specs {
			vs := sp.(*ast.ValueSpec)
			if len(vs.Values) > 0 && len(vs.Values) != len(vs.Names) {
				unsup("multi-value var decl at %s", f.pos(s))
			}
			for i, n := range vs.Names {
				obj, _ := f.tinfo().Defs[n].(*types.Var)
				if obj == nil {
					continue
				}
				if len(vs.Values) > 0 {
					v := f.expr(st, vs.Values[i])
					st.vars[obj] = f.implicit(st, v, f.typeOf(vs.Values[i]), obj.Type())
				} else if valueStructs[namedPath(obj.Type())] {
					st.vars[obj] = f.newZeroObject(st, obj.Type())
				} else {
					st.vars[obj] = f.zero(obj.Type())
				}
			}
		}
		return &Flow{Normal: st}
	case *ast.ReturnStmt:
		return f.ret(st, x)
	case *ast.IfStmt:
		return f.ifStmt(st, x)
	case *ast.SwitchStmt:
		return f.switchStmt(st, x, "")
	case *ast.TypeSwitchStmt:
		return f.typeSwitch(st, x, "")
	case *ast.ForStmt:
		return f.forStmt(st, x, "")
	case *ast.RangeStmt:
		return f.rangeStmt(st, x, "")
	case *ast.LabeledStmt:
		lbl := x.Label.Name
		switch y := x.Stmt.(type) {
		case *ast.ForStmt:
			return f.forStmt(st, y, lbl)
		case *ast.RangeStmt:
			return f.rangeStmt(st, y, lbl)
		case *ast.SwitchStmt:
			return f.switchStmt(st, y, lbl)
		}
		return f.stmt(st, x.Stmt)
	case *ast.BranchStmt:
		lbl := ""
		if x.Label != nil {
			lbl = x.Label.Name
		}
		switch x.Tok {
		case token.BREAK:
			return &Flow{Breaks: []Jump{{lbl, st}}}
		case token.CONTINUE:
			return &Flow{Continues: []Jump{{lbl, st}}}
		}
		unsup("%s at %s", x.Tok, f.pos(s))
	case *ast.DeferStmt:
		f.deferred = append(f.deferred, x.Call)
		if fl, ok := x.Call.Fun.(*ast.FuncLit); ok {
			_ = fl
		} else {
			// arguments are evaluated now; we only support deferring closures or argument-free calls
			if len(x.Call.Args) > 0 {
				unsup("defer with arguments at %s", f.pos(s))
			}
		}
		return &Flow{Normal: st}
	case *ast.EmptyStmt:
		return &Flow{Normal: st}
	case *ast.GoStmt, *ast.SelectStmt, *ast.SendStmt:
		unsup("concurrency statement %T at %s (outside the verified subset)", s, f.pos(s))
	}
	unsup("statement %T at %s", s, f.pos(s))
	return nil
}

func (f *FuncCtx) constOne(s Sort) Term {
	switch s {
	case SBV64:
		return Term{S: "(_ bv1 64)", Sort: s}
	case SF64:
		return Term{S: fpLit(1), Sort: s}
	}
	return Term{S: "1", Sort: SInt}
}

// ---------- assignment ----------

func (f *FuncCtx) assign(st *State, x *ast.AssignStmt) {
	if x.Tok != token.ASSIGN && x.Tok != token.DEFINE {
		// op-assign
		m := map[token.Token]token.Token{token.ADD_ASSIGN: token.ADD, token.SUB_ASSIGN: token.SUB, token.MUL_ASSIGN: token.MUL,
			token.QUO_ASSIGN: token.QUO, token.REM_ASSIGN: token.REM, token.AND_ASSIGN: token.AND, token.OR_ASSIGN: token.OR,
			token.XOR_ASSIGN: token.XOR, token.SHL_ASSIGN: token.SHL, token.SHR_ASSIGN: token.SHR}
		op, ok := m[x.Tok]
		if !ok {
			unsup("assignment operator %s at %s", x.Tok, f.pos(x))
		}
		cur := f.expr(st, x.Lhs[0])
		r := f.expr(st, x.Rhs[0])
		v := f.binop(st, op, cur, r, f.typeOf(x.Lhs[0]), f.typeOf(x.Lhs[0]), f.pos(x))
		f.assignTo(st, x.Lhs[0], v)
		return
	}
	var vals []Term
	var vtypes []types.Type
	if len(x.Rhs) == 1 && len(x.Lhs) > 1 {
		switch r := ast.Unparen(x.Rhs[0]).(type) {
		case *ast.CallExpr:
			vals = f.call(st, r)
			if tup, ok := f.typeOf(r).(*types.Tuple); ok {
				for i := 0; i < tup.Len(); i++ {
					vtypes = append(vtypes, tup.At(i).Type())
				}
			}
		case *ast.IndexExpr:
			v, ok := f.indexRead(st, r, true)
			vals = []Term{v, ok}
			vtypes = []types.Type{v.GoT, types.Typ[types.Bool]}
		case *ast.TypeAssertExpr:
			v, ok := f.typeAssert(st, r, true)
			vals = []Term{v, ok}
			vtypes = []types.Type{v.GoT, types.Typ[types.Bool]}
		default:
			unsup("multi-value assignment from %T at %s", r, f.pos(x))
		}
		if len(vals) != len(x.Lhs) {
			unsup("assignment arity at %s", f.pos(x))
		}
	} else {
		for _, r := range x.Rhs {
			vals = append(vals, f.expr(st, r))
			vtypes = append(vtypes, f.typeOf(r))
		}
	}
	for i, l := range x.Lhs {
		v := vals[i]
		var lt types.Type
		if id, ok := l.(*ast.Ident); ok && id.Name == "_" {
			continue
		}
		lt = f.tinfo().TypeOf(l)
		var vt types.Type
		if i < len(vtypes) {
			vt = vtypes[i]
		}
		v = f.implicit(st, v, vt, lt)
		if lt != nil && v.GoT == nil {
			v.GoT = lt
		}
		if len(x.Rhs) == len(x.Lhs) {
			if _, isSel := ast.Unparen(l).(*ast.SelectorExpr); isSel {
				f.sliceAliasCheck(st, lt, x.Rhs[i])
			}
		}
		f.assignTo(st, l, v)
	}
}

func (f *FuncCtx) assignTo(st *State, l ast.Expr, v Term) {
	switch x := ast.Unparen(l).(type) {
	case *ast.Ident:
		if x.Name == "_" {
			return
		}
		obj := f.tinfo().Defs[x]
		if obj == nil {
			obj = f.tinfo().Uses[x]
		}
		vr, ok := obj.(*types.Var)
		if !ok {
			unsup("assignment to %s at %s", x.Name, f.pos(l))
		}
		v = f.define(st, vr.Name(), v)
		if v.GoT == nil || !types.Identical(v.GoT, vr.Type()) {
			v.GoT = vr.Type()
		}
		if vr.Parent() != nil && vr.Pkg() != nil && vr.Parent() == vr.Pkg().Scope() {
			name := "G_" + vr.Pkg().Name() + "_" + vr.Name()
			f.w.ensureHeap(name, v.Sort)
			st.heap[name] = v.S
			return
		}
		st.vars[vr] = v
	case *ast.SelectorExpr:
		ref, owner, path, ft := f.fieldLoc(st, x)
		hn, hs := f.w.fieldHeap(owner, path, ft, f.bv)
		v = f.implicit(st, v, v.GoT, ft)
		f.heapStore(st, hn, hs, ref.S, v.S)
	case *ast.IndexExpr:
		bt := types.Unalias(f.typeOf(x.X))
		switch u := bt.Underlying().(type) {
		case *types.Map:
			m := f.expr(st, x.X)
			k := f.implicit(st, f.expr(st, x.Index), f.typeOf(x.Index), u.Key())
			f.mapStore(st, m, u, k, v)
		case *types.Slice, *types.Array:
			s := f.expr(st, x.X)
			i := f.expr(st, x.Index)
			ln := "(len_" + s.Sort + " " + s.S + ")"
			f.panicIf(st, "(or (< "+i.S+" 0) (>= "+i.S+" "+ln+"))", f.site("index"))
			ns := Term{S: "(mk_" + s.Sort + " " + ln + " (store (arr_" + s.Sort + " " + s.S + ") " + i.S + " " + v.S + "))", Sort: s.Sort, GoT: s.GoT}
			f.assignTo(st, x.X, ns)
		default:
			unsup("indexed assignment on %s at %s", bt, f.pos(l))
		}
	case *ast.StarExpr:
		p := f.expr(st, x.X)
		f.panicIf(st, "(= "+p.S+" 0)", f.site("deref"))
		hn := "Hptr_" + mangle(v.Sort)
		f.heapStore(st, hn, "(Array Int "+v.Sort+")", p.S, v.S)
	default:
		unsup("assignment target %T at %s", l, f.pos(l))
	}
}

// ---------- return ----------

func (f *FuncCtx) ret(st *State, x *ast.ReturnStmt) *Flow {
	var vals []Term
	sig := f.info.Obj.Type().(*types.Signature)
	if len(x.Results) == 0 {
		for _, rv := range f.results {
			vals = append(vals, st.vars[rv])
		}
	} else if len(x.Results) == 1 && sig.Results().Len() > 1 {
		call, ok := ast.Unparen(x.Results[0]).(*ast.CallExpr)
		if !ok {
			unsup("return arity at %s", f.pos(x))
		}
		vals = f.call(st, call)
	} else {
		for i, r := range x.Results {
			v := f.expr(st, r)
			v = f.implicit(st, v, f.typeOf(r), sig.Results().At(i).Type())
			vals = append(vals, v)
		}
	}
	for i := range vals {
		vals[i].GoT = sig.Results().At(i).Type()
	}
	st.ret = vals
	st.ndefer = len(f.deferred)
	st.site = fmt.Sprintf("ret%d", f.retOrd[x])
	// named results observe the returned values (deferred closures may read/modify them)
	for i, rv := range f.results {
		if i < len(vals) {
			st.vars[rv] = vals[i]
		}
	}
	return &Flow{Returns: []*State{st}}
}

// ---------- if / switch ----------

func (f *FuncCtx) ifStmt(st *State, x *ast.IfStmt) *Flow {
	out := &Flow{}
	if x.Init != nil {
		fl := f.stmt(st, x.Init)
		f.drain(fl)
		out.absorb(fl)
		st = fl.Normal
		if st == nil {
			return out
		}
	}
	c := f.expr(st, x.Cond)
	f.drain(out)
	s1, s2 := st.clone(), st.clone()
	s1.assume(c.S)
	s2.assume("(not " + c.S + ")")
	f1 := f.block(s1, x.Body.List)
	out.absorb(f1)
	var n2 *State = s2
	if x.Else != nil {
		f2 := f.stmt(s2, x.Else)
		f.drain(f2)
		out.absorb(f2)
		n2 = f2.Normal
	}
	out.Normal = f.merge([]*State{f1.Normal, n2})
	return out
}

func (f *FuncCtx) switchStmt(st *State, x *ast.SwitchStmt, label string) *Flow {
	out := &Flow{}
	if x.Init != nil {
		fl := f.stmt(st, x.Init)
		f.drain(fl)
		out.absorb(fl)
		st = fl.Normal
		if st == nil {
			return out
		}
	}
	var tag *Term
	if x.Tag != nil {
		t := f.expr(st, x.Tag)
		t = f.define(st, "tag", t)
		tag = &t
	}
	f.drain(out)
	var normals []*State
	var notPrev []string
	var defClause *ast.CaseClause
	handle := func(cc *ast.CaseClause, s *State) {
		fl := f.block(s, cc.Body)
		// breaks targeting this switch become normal exits
		var keep []Jump
		for _, b := range fl.Breaks {
			if b.label == "" || b.label == label {
				normals = append(normals, b.st)
			} else {
				keep = append(keep, b)
			}
		}
		fl.Breaks = keep
		out.absorb(fl)
		normals = append(normals, fl.Normal)
	}
	for _, c := range x.Body.List {
		cc := c.(*ast.CaseClause)
		if cc.List == nil {
			defClause = cc
			continue
		}
		for _, s := range cc.Body {
			if b, ok := s.(*ast.BranchStmt); ok && b.Tok == token.FALLTHROUGH {
				unsup("fallthrough at %s", f.pos(s))
			}
		}
		var alts []string
		for _, e := range cc.List {
			if !f.pureSafe(e) {
				unsup("case expression with effects at %s", f.pos(e))
			}
			v := f.expr(st, e)
			if tag != nil {
				alts = append(alts, "(= "+tag.S+" "+v.S+")")
			} else {
				alts = append(alts, v.S)
			}
		}
		cond := alts[0]
		if len(alts) > 1 {
			cond = "(or " + strings.Join(alts, " ") + ")"
		}
		s := st.clone()
		for _, np := range notPrev {
			s.assume(np)
		}
		s.assume(cond)
		handle(cc, s)
		notPrev = append(notPrev, "(not "+cond+")")
	}
	s := st.clone()
	for _, np := range notPrev {
		s.assume(np)
	}
	if defClause != nil {
		handle(defClause, s)
	} else {
		normals = append(normals, s)
	}
	out.Normal = f.merge(normals)
	return out
}

func (f *FuncCtx) typeSwitch(st *State, x *ast.TypeSwitchStmt, label string) *Flow {
	out := &Flow{}
	if x.Init != nil {
		fl := f.stmt(st, x.Init)
		f.drain(fl)
		out.absorb(fl)
		st = fl.Normal
	}
	var subject ast.Expr
	var bind *ast.Ident
	switch a := x.Assign.(type) {
	case *ast.ExprStmt:
		subject = a.X.(*ast.TypeAssertExpr).X
	case *ast.AssignStmt:
		subject = a.Rhs[0].(*ast.TypeAssertExpr).X
		bind = a.Lhs[0].(*ast.Ident)
	}
	v := f.expr(st, subject)
	v = f.define(st, "tsw", v)
	f.drain(out)
	var normals []*State
	var notPrev []string
	var defClause *ast.CaseClause
	handle := func(cc *ast.CaseClause, s *State, bound *Term) {
		if bind != nil {
			if obj, ok := f.tinfo().Implicits[cc].(*types.Var); ok {
				if bound != nil {
					s.vars[obj] = *bound
				} else {
					s.vars[obj] = Term{S: v.S, Sort: v.Sort, GoT: obj.Type()}
				}
			}
		}
		fl := f.block(s, cc.Body)
		var keep []Jump
		for _, b := range fl.Breaks {
			if b.label == "" || b.label == label {
				normals = append(normals, b.st)
			} else {
				keep = append(keep, b)
			}
		}
		fl.Breaks = keep
		out.absorb(fl)
		normals = append(normals, fl.Normal)
	}
	for _, c := range x.Body.List {
		cc := c.(*ast.CaseClause)
		if cc.List == nil {
			defClause = cc
			continue
		}
		var alts []string
		var bound *Term
		for _, te := range cc.List {
			if id, ok := te.(*ast.Ident); ok && id.Name == "nil" {
				alts = append(alts, "(= "+v.S+" 0)")
				continue
			}
			to := types.Unalias(f.tinfo().TypeOf(te))
			s0 := st.clone()
			res, ok := f.assertTo(s0, v, to, true, "")
			// the ok-definition lives in s0.pc tail; copy it over
			for _, c := range s0.pc[len(st.pc):] {
				st.assume(c)
			}
			alts = append(alts, ok.S)
			if len(cc.List) == 1 {
				r := res
				// inside the clause the assertion succeeded: use the unboxed value directly
				r.S = strings.TrimSuffix(strings.TrimPrefix(r.S, "(ite "+ok.S+" "), " "+f.zero(to).S+")")
				bound = &r
			}
		}
		cond := alts[0]
		if len(alts) > 1 {
			cond = "(or " + strings.Join(alts, " ") + ")"
		}
		s := st.clone()
		for _, np := range notPrev {
			s.assume(np)
		}
		s.assume(cond)
		handle(cc, s, bound)
		notPrev = append(notPrev, "(not "+cond+")")
	}
	s := st.clone()
	for _, np := range notPrev {
		s.assume(np)
	}
	if defClause != nil {
		handle(defClause, s, nil)
	} else {
		normals = append(normals, s)
	}
	out.Normal = f.merge(normals)
	return out
}

// ---------- loops ----------

type loopTargets struct {
	freshHeaps map[string]bool     // written only at objects allocated inside the loop (callee `fresh T.*` frames)
	direct     map[*types.Var]bool // assigned as a whole (not only through element stores s[i] = v)
	vars       map[*types.Var]bool
	heaps      map[string]bool
	ghost      map[string]bool
	all        bool
}

// assignedIn computes what a loop body may modify (syntactic over-approximation).
func (f *FuncCtx) assignedIn(nodes ...ast.Node) *loopTargets {
	lt := &loopTargets{vars: map[*types.Var]bool{}, direct: map[*types.Var]bool{}, heaps: map[string]bool{}, ghost: map[string]bool{}}
	var markLhs0 func(e ast.Expr, viaIndex bool)
	markLhs := func(e ast.Expr) { markLhs0(e, false) }
	markLhs0 = func(e ast.Expr, viaIndex bool) {
		switch x := ast.Unparen(e).(type) {
		case *ast.Ident:
			obj := f.tinfo().Defs[x]
			if obj == nil {
				obj = f.tinfo().Uses[x]
			}
			if v, ok := obj.(*types.Var); ok {
				if v.Parent() != nil && v.Pkg() != nil && v.Parent() == v.Pkg().Scope() {
					lt.heaps["G_"+v.Pkg().Name()+"_"+v.Name()] = true
				} else {
					lt.vars[v] = true
					if !viaIndex {
						lt.direct[v] = true
					}
				}
			}
		case *ast.SelectorExpr:
			if sel := f.tinfo().Selections[x]; sel != nil && sel.Kind() == types.FieldVal {
				if hn := f.fieldHeapStatic(x); hn != "" {
					lt.heaps[hn] = true
				} else {
					lt.heaps["F:"+x.Sel.Name] = true
				}
			}
		case *ast.IndexExpr:
			bt := types.Unalias(f.typeOf(x.X))
			if m, ok := bt.Underlying().(*types.Map); ok {
				d, v, l := f.w.mapHeapsT(m, f.bv)
				lt.heaps[d], lt.heaps[v], lt.heaps[l] = true, true, true
			} else {
				markLhs0(x.X, true)
			}
		case *ast.StarExpr:
			lt.heaps["P:*"] = true
		}
	}
	for _, n := range nodes {
		if n == nil {
			continue
		}
		ast.Inspect(n, func(n ast.Node) bool {
			switch x := n.(type) {
			case *ast.AssignStmt:
				for _, l := range x.Lhs {
					markLhs(l)
				}
			case *ast.IncDecStmt:
				markLhs(x.X)
			case *ast.RangeStmt:
				if x.Key != nil {
					markLhs(x.Key)
				}
				if x.Value != nil {
					markLhs(x.Value)
				}
			case *ast.CallExpr:
				f.callEffects(x, lt)
			}
			return true
		})
	}
	return lt
}

// havocTargets havocs everything the loop may modify.
func (f *FuncCtx) havocTargets(st *State, lt *loopTargets) {
	var vs []*types.Var
	for v := range lt.vars {
		if _, ok := st.vars[v]; ok {
			vs = append(vs, v)
		}
	}
	sort.Slice(vs, func(i, j int) bool { return vs[i].Pos() < vs[j].Pos() })
	for _, v := range vs {
		old := st.vars[v]
		st.vars[v] = f.havocVal(st, "lh_"+v.Name(), v.Type())
		// a slice that the loop only writes element-wise (s[i] = v) keeps its length
		if !lt.direct[v] && strings.HasPrefix(old.Sort, "Slice_") && st.vars[v].Sort == old.Sort {
			st.assume("(= (len_" + old.Sort + " " + st.vars[v].S + ") (len_" + old.Sort + " " + old.S + "))")
		}
	}
	var hs []string
	if !lt.all && len(lt.freshHeaps) > 0 {
		al0 := f.heapTerm(st, "alloc", "(Array Int Bool)")
		var fh []string
		for h := range lt.freshHeaps {
			fh = append(fh, h)
		}
		sort.Strings(fh)
		for _, h := range fh {
			if lt.heaps[h] {
				continue // also written directly: plain havoc below
			}
			if _, ok := f.w.heapSorts[h]; !ok {
				continue
			}
			if st.pending == nil {
				st.pending = map[string][]string{}
			}
			st.pending[h] = append(st.pending[h], al0)
		}
	}
	if lt.all {
		for _, h := range f.w.heapOrd {
			hs = append(hs, h)
		}
	} else {
		for h := range lt.heaps {
			if strings.HasPrefix(h, "F:") {
				fn := strings.TrimPrefix(h, "F:")
				for _, hn := range f.w.heapOrd {
					if strings.HasSuffix(hn, "_"+fn) && strings.HasPrefix(hn, "H_") {
						hs = append(hs, hn)
					}
				}
			} else if h == "P:*" {
				for _, hn := range f.w.heapOrd {
					if strings.HasPrefix(hn, "Hptr_") {
						hs = append(hs, hn)
					}
				}
			} else {
				hs = append(hs, h)
			}
		}
	}
	sort.Strings(hs)
	for _, h := range hs {
		f.havocHeap(st, h)
	}
	var gs []string
	for g := range lt.ghost {
		gs = append(gs, g)
	}
	sort.Strings(gs)
	for _, g := range gs {
		cur := f.ghostTerm(st, g)
		st.ghost[g] = Term{S: f.fresh("lg_"+strings.TrimPrefix(g, "$"), cur.Sort), Sort: cur.Sort, GoT: cur.GoT}
	}
}

func (f *FuncCtx) havocHeap(st *State, h string) {
	srt, ok := f.w.heapSorts[h]
	if !ok {
		return
	}
	if h == "alloc" {
		old := f.heapTerm(st, "alloc", srt)
		c := f.fresh("alloc", srt)
		st.heap["alloc"] = c
		st.assume("(forall ((q!p Int)) (! (=> (select " + old + " q!p) (select " + c + " q!p)) :pattern ((select " + c + " q!p))))")
		return
	}
	delete(st.pending, h)
	var before string
	if strings.HasPrefix(srt, "(Array Int ") && !strings.HasPrefix(h, "G_") {
		before = f.heapTerm(st, h, srt)
	}
	st.heap[h] = f.fresh("hv_"+h, srt)
	if before != "" {
		// the slot of the nil reference is never written (every write through nil panics first), so no havoc changes it
		st.assume("(= (select " + st.heap[h] + " 0) (select " + before + " 0))")
	}
}

func (f *FuncCtx) loopEnv(st *State, extra map[string]Term, pos token.Pos) *CEnv {
	names := map[string]Term{}
	for k, v := range f.names0 {
		names[k] = v
	}
	for ord, g := range f.loopGhosts {
		for k, v := range g {
			names[fmt.Sprintf("%s%d", k, ord)] = v // e.g. $i1, $keys1: ghosts of loop 1, visible in nested loops' invariants
		}
	}
	for k, v := range extra {
		names[k] = v
	}
	return &CEnv{f: f, st: st, old: f.initSt, names: names, pkgName: f.info.Pkg.Name,
		locals: func(name string) (Term, bool) {
			var best *types.Var
			for _, v := range f.localsByName[name] {
				if _, ok := st.vars[v]; !ok {
					continue
				}
				if best == nil || (v.Pos() <= pos && v.Pos() > best.Pos()) || best.Pos() > pos {
					best = v
				}
			}
			if best != nil {
				return st.vars[best], true
			}
			return Term{}, false
		}}
}

func (f *FuncCtx) checkInvs(st *State, ord int, extra map[string]Term, pos token.Pos, phase string, site string) {
	for _, inv := range f.con.Invariants[ord] {
		env := f.loopEnv(st, extra, pos)
		g := env.boolT(inv.Expr)
		id := fmt.Sprintf("inv@%d.%d/%s", ord, inv.N, phase)
		if inv.Label != "" {
			id = fmt.Sprintf("inv@%d.%s/%s", ord, inv.Label, phase)
		}
		f.oblige(st, g, id, "inv-"+phase, inv.Text, inv.Props, site)
	}
}

func (f *FuncCtx) assumeInvs(st *State, ord int, extra map[string]Term, pos token.Pos) {
	for _, inv := range f.con.Invariants[ord] {
		env := f.loopEnv(st, extra, pos)
		st.assume(env.boolT(inv.Expr))
	}
}

func (f *FuncCtx) variant(st *State, ord int, extra map[string]Term, pos token.Pos) *Term {
	d, ok := f.con.Decreases[ord]
	if !ok {
		return nil
	}
	env := f.loopEnv(st, extra, pos)
	t := env.coerceLit(env.tr(d), SInt)
	t = f.defineAlways(st, "variant", t)
	return &t
}

func (f *FuncCtx) checkVariant(st *State, ord int, v0 *Term, extra map[string]Term, pos token.Pos, site string) {
	if v0 == nil {
		return
	}
	env := f.loopEnv(st, extra, pos)
	t := env.coerceLit(env.tr(f.con.Decreases[ord]), SInt)
	var g string
	if t.Sort == SBV64 {
		g = "(and (bvule (_ bv0 64) " + v0.S + ") (bvult " + t.S + " " + v0.S + "))"
	} else {
		g = "(and (<= 0 " + v0.S + ") (< " + t.S + " " + v0.S + "))"
	}
	f.oblige(st, g, fmt.Sprintf("decreases@%d", ord), "variant", f.con.Decreases[ord].String(), nil, site)
}

// splitJumps separates jumps that target this loop from those that propagate.
func splitJumps(js []Jump, label string) (mine []*State, other []Jump) {
	for _, j := range js {
		if j.label == "" || j.label == label {
			mine = append(mine, j.st)
		} else {
			other = append(other, j)
		}
	}
	return
}

func (f *FuncCtx) forStmt(st *State, x *ast.ForStmt, label string) *Flow {
	out := &Flow{}
	ord := f.loopOrd[x]
	if x.Init != nil {
		fl := f.stmt(st, x.Init)
		f.drain(fl)
		out.absorb(fl)
		st = fl.Normal
	}
	site := f.pos(x)
	if n, ok := f.con.Unroll[ord]; ok && len(f.con.Invariants[ord]) == 0 {
		return f.unrollFor(st, x, label, n, out)
	}
	f.checkInvs(st, ord, nil, x.Pos(), "entry", site)
	lt := f.assignedIn(x.Body, x.Post, x.Cond)
	head := st.clone()
	f.havocTargets(head, lt)
	f.assumeInvs(head, ord, nil, x.Pos())
	// implicit invariant of a counting loop (for i := e; ...; i++ whose body never assigns i): i >= its initial value
	// (trivially inductive on mathematical integers; not used in bit-vector mode, where i++ may wrap)
	if cv := f.countingVar(x); cv != nil && !f.bv {
		if t0, ok := st.vars[cv]; ok && t0.Sort == SInt {
			if t1, ok := head.vars[cv]; ok {
				head.assume("(>= " + t1.S + " " + t0.S + ")")
			}
		}
	}
	var exits []*State
	// body path
	body := head.clone()
	if x.Cond != nil {
		c := f.expr(body, x.Cond)
		f.drain(out)
		ex := body.clone()
		ex.assume("(not " + c.S + ")")
		exits = append(exits, ex)
		body.assume(c.S)
	}
	v0 := f.variant(body, ord, nil, x.Pos())
	fl := f.block(body, x.Body.List)
	brk, ob := splitJumps(fl.Breaks, label)
	cont, oc := splitJumps(fl.Continues, label)
	fl.Breaks, fl.Continues = ob, oc
	out.absorb(fl)
	exits = append(exits, brk...)
	end := f.merge(append(cont, fl.Normal))
	if end != nil {
		if x.Post != nil {
			pf := f.stmt(end, x.Post)
			f.drain(pf)
			out.absorb(pf)
			end = pf.Normal
		}
		if end != nil {
			f.checkInvs(end, ord, nil, x.Pos(), "preserved", site)
			f.checkVariant(end, ord, v0, nil, x.Pos(), site)
		}
	}
	out.Normal = f.merge(exits)
	return out
}

// countingVar returns the loop counter of `for i := e; cond; i++ { body }` when the body never assigns i or takes its address.
func (f *FuncCtx) countingVar(x *ast.ForStmt) *types.Var {
	as, ok := x.Init.(*ast.AssignStmt)
	if !ok || len(as.Lhs) != 1 {
		return nil
	}
	id, ok := as.Lhs[0].(*ast.Ident)
	if !ok {
		return nil
	}
	inc, ok := x.Post.(*ast.IncDecStmt)
	if !ok || inc.Tok != token.INC {
		return nil
	}
	pid, ok := inc.X.(*ast.Ident)
	if !ok || pid.Name != id.Name {
		return nil
	}
	obj := f.tinfo().Defs[id]
	if obj == nil {
		obj = f.tinfo().Uses[id]
	}
	v, ok := obj.(*types.Var)
	if !ok {
		return nil
	}
	clean := true
	ast.Inspect(x.Body, func(n ast.Node) bool {
		switch y := n.(type) {
		case *ast.AssignStmt:
			for _, l := range y.Lhs {
				if li, ok := ast.Unparen(l).(*ast.Ident); ok && f.tinfo().Uses[li] == v {
					clean = false
				}
			}
		case *ast.IncDecStmt:
			if li, ok := ast.Unparen(y.X).(*ast.Ident); ok && f.tinfo().Uses[li] == v {
				clean = false
			}
		case *ast.UnaryExpr:
			if y.Op == token.AND {
				if li, ok := ast.Unparen(y.X).(*ast.Ident); ok && f.tinfo().Uses[li] == v {
					clean = false
				}
			}
		case *ast.FuncLit:
			clean = false // closures may capture and assign the counter
		case *ast.RangeStmt:
			for _, l := range []ast.Expr{y.Key, y.Value} {
				if li, ok := l.(*ast.Ident); ok && y.Tok == token.ASSIGN && f.tinfo().Uses[li] == v {
					clean = false
				}
			}
		}
		return true
	})
	if !clean {
		return nil
	}
	return v
}

func (f *FuncCtx) unrollFor(st *State, x *ast.ForStmt, label string, n int, out *Flow) *Flow {
	saved := f.bounded
	if f.bounded == 0 || n < f.bounded {
		f.bounded = n
	}
	defer func() { _ = saved }()
	var exits []*State
	cur := st
	for i := 0; i <= n && cur != nil; i++ {
		if x.Cond != nil {
			c := f.expr(cur, x.Cond)
			f.drain(out)
			ex := cur.clone()
			ex.assume("(not " + c.S + ")")
			exits = append(exits, ex)
			cur.assume(c.S)
		}
		if i == n {
			break // paths needing more than n iterations are not explored (bounded)
		}
		fl := f.block(cur, x.Body.List)
		brk, ob := splitJumps(fl.Breaks, label)
		cont, oc := splitJumps(fl.Continues, label)
		fl.Breaks, fl.Continues = ob, oc
		out.absorb(fl)
		exits = append(exits, brk...)
		cur = f.merge(append(cont, fl.Normal))
		if cur != nil && x.Post != nil {
			pf := f.stmt(cur, x.Post)
			f.drain(pf)
			out.absorb(pf)
			cur = pf.Normal
		}
	}
	out.Normal = f.merge(exits)
	return out
}

func (f *FuncCtx) rangeStmt(st *State, x *ast.RangeStmt, label string) *Flow {
	out := &Flow{}
	ord := f.loopOrd[x]
	site := f.pos(x)
	xt := types.Unalias(f.typeOf(x.X))
	coll := f.expr(st, x.X)
	f.drain(out)
	coll = f.defineAlways(st, "rng", coll)
	extra := map[string]Term{}
	var n Term
	var keysArr, posFn string
	var mp *types.Map
	isMap := false
	switch u := xt.Underlying().(type) {
	case *types.Slice, *types.Array:
		n = Term{S: "(len_" + coll.Sort + " " + coll.S + ")", Sort: SInt}
	case *types.Map:
		isMap = true
		mp = u
		ks, vs := f.sortOfT(u.Key()), f.sortOfT(u.Elem())
		dom, _, ln := f.w.mapHeapsT(u, f.bv)
		nn := f.fresh("rng_n", SInt)
		n = Term{S: nn, Sort: SInt}
		keysArr = f.fresh("rng_keys", "(Array Int "+ks+")")
		dom0 := f.fresh("rng_dom", "(Array "+ks+" Bool)")
		st.assume("(= " + dom0 + " (ite (= " + coll.S + " 0) ((as const (Array " + ks + " Bool)) false) (select " + f.heapTerm(st, dom, f.w.heapSorts[dom]) + " " + coll.S + ")))")
		st.assume("(>= " + nn + " 0)")
		st.assume("(=> (not (= " + coll.S + " 0)) (= " + nn + " (select " + f.heapTerm(st, ln, f.w.heapSorts[ln]) + " " + coll.S + ")))")
		st.assume("(=> (= " + coll.S + " 0) (= " + nn + " 0))")
		posFn = f.fresh("rng_pos", "(Array "+ks+" Int)")
		// the ghost sequence enumerates exactly the domain, without duplicates
		st.assume("(forall ((q!j Int)) (! (=> (and (<= 0 q!j) (< q!j " + nn + ")) (and (select " + dom0 + " (select " + keysArr + " q!j)) (= (select " + posFn + " (select " + keysArr + " q!j)) q!j))) :pattern ((select " + keysArr + " q!j))))")
		st.assume("(forall ((q!k " + ks + ")) (! (=> (select " + dom0 + " q!k) (and (<= 0 (select " + posFn + " q!k)) (< (select " + posFn + " q!k) " + nn + ") (= (select " + keysArr + " (select " + posFn + " q!k)) q!k))) :pattern ((select " + dom0 + " q!k)) :pattern ((select " + posFn + " q!k))))")
		extra["$keys"] = Term{S: keysArr, Sort: "(Array Int " + ks + ")"}
		extra["$pos"] = Term{S: posFn, Sort: "(Array " + ks + " Int)"}
		extra["$dom"] = Term{S: dom0, Sort: "(Array " + ks + " Bool)"}
		_ = vs
	case *types.Basic:
		if u.Kind() == types.Int || u.Kind() == types.UntypedInt {
			n = coll
		} else {
			unsup("range over %s at %s", xt, f.pos(x))
		}
	default:
		unsup("range over %s at %s", xt, f.pos(x))
	}
	extra["$n"] = n
	extra["$coll"] = coll
	if nunroll, ok := f.con.Unroll[ord]; ok && len(f.con.Invariants[ord]) == 0 {
		return f.unrollRange(st, x, label, nunroll, out, coll, n, keysArr, mp, isMap)
	}
	extra["$i"] = Term{S: "0", Sort: SInt}
	f.checkInvs(st, ord, extra, x.Pos(), "entry", site)
	lt := f.assignedIn(x.Body)
	if x.Key != nil {
		lt2 := f.assignedIn(&ast.AssignStmt{Lhs: []ast.Expr{x.Key}, Tok: x.Tok})
		for v := range lt2.vars {
			lt.vars[v] = true
		}
	}
	head := st.clone()
	f.havocTargets(head, lt)
	idx := f.fresh("rng_i", SInt)
	extra["$i"] = Term{S: idx, Sort: SInt}
	if f.loopGhosts == nil {
		f.loopGhosts = map[int]map[string]Term{}
	}
	f.loopGhosts[ord] = extra
	defer delete(f.loopGhosts, ord)
	head.assume("(and (<= 0 " + idx + ") (<= " + idx + " " + n.S + "))")
	f.assumeInvs(head, ord, extra, x.Pos())
	// exit
	ex := head.clone()
	ex.assume("(= " + idx + " " + n.S + ")")
	exits := []*State{ex}
	// body
	body := head.clone()
	body.assume("(< " + idx + " " + n.S + ")")
	f.bindRangeVars(body, x, coll, idx, keysArr, mp, isMap)
	fl := f.block(body, x.Body.List)
	brk, ob := splitJumps(fl.Breaks, label)
	cont, oc := splitJumps(fl.Continues, label)
	fl.Breaks, fl.Continues = ob, oc
	out.absorb(fl)
	// at break the iteration counter still points at the current element
	exits = append(exits, brk...)
	end := f.merge(append(cont, fl.Normal))
	if end != nil {
		extra2 := map[string]Term{}
		for k, v := range extra {
			extra2[k] = v
		}
		extra2["$i"] = Term{S: "(+ " + idx + " 1)", Sort: SInt}
		f.checkInvs(end, ord, extra2, x.Pos(), "preserved", site)
	}
	out.Normal = f.merge(exits)
	// remember loop ghost names for post-loop reasoning (ensures may refer to them through invariants only)
	return out
}

func (f *FuncCtx) bindRangeVars(body *State, x *ast.RangeStmt, coll Term, idx string, keysArr string, mp *types.Map, isMap bool) {
	setVar := func(e ast.Expr, v Term) {
		if e == nil {
			return
		}
		if id, ok := e.(*ast.Ident); ok && id.Name == "_" {
			return
		}
		f.assignTo(body, e, v)
	}
	if isMap {
		ks, vs := f.sortOfT(mp.Key()), f.sortOfT(mp.Elem())
		_, val, _ := f.w.mapHeapsT(mp, f.bv)
		k := Term{S: "(select " + keysArr + " " + idx + ")", Sort: ks, GoT: mp.Key()}
		k = f.defineAlways(body, "rk", k)
		f.typeFacts(body, k)
		setVar(x.Key, k)
		if x.Value != nil {
			v := Term{S: "(select (select " + f.heapTerm(body, val, f.w.heapSorts[val]) + " " + coll.S + ") " + k.S + ")", Sort: vs, GoT: mp.Elem()}
			v = f.defineAlways(body, "rv", v)
			f.typeFacts(body, v)
			setVar(x.Value, v)
		}
		return
	}
	if strings.HasPrefix(coll.Sort, "Slice_") {
		setVar(x.Key, Term{S: idx, Sort: SInt, GoT: types.Typ[types.Int]})
		if x.Value != nil {
			var et types.Type
			switch u := types.Unalias(f.typeOf(x.X)).Underlying().(type) {
			case *types.Slice:
				et = u.Elem()
			case *types.Array:
				et = u.Elem()
			}
			v := Term{S: "(select (arr_" + coll.Sort + " " + coll.S + ") " + idx + ")", Sort: f.w.sliceSorts[coll.Sort], GoT: et}
			v = f.defineAlways(body, "re", v)
			f.typeFacts(body, v)
			setVar(x.Value, v)
		}
		return
	}
	setVar(x.Key, Term{S: idx, Sort: SInt, GoT: types.Typ[types.Int]})
}

func (f *FuncCtx) unrollRange(st *State, x *ast.RangeStmt, label string, n int, out *Flow, coll, cnt Term, keysArr string, mp *types.Map, isMap bool) *Flow {
	if f.bounded == 0 || n < f.bounded {
		f.bounded = n
	}
	var exits []*State
	cur := st
	for i := 0; i <= n && cur != nil; i++ {
		ex := cur.clone()
		ex.assume(fmt.Sprintf("(= %s %d)", cnt.S, i))
		exits = append(exits, ex)
		if i == n {
			break
		}
		cur.assume(fmt.Sprintf("(> %s %d)", cnt.S, i))
		f.bindRangeVars(cur, x, coll, fmt.Sprint(i), keysArr, mp, isMap)
		fl := f.block(cur, x.Body.List)
		brk, ob := splitJumps(fl.Breaks, label)
		cont, oc := splitJumps(fl.Continues, label)
		fl.Breaks, fl.Continues = ob, oc
		out.absorb(fl)
		exits = append(exits, brk...)
		cur = f.merge(append(cont, fl.Normal))
	}
	out.Normal = f.merge(exits)
	return out
}

// fieldHeapStatic names the heap array a field selection denotes, from types alone ("" if it cannot tell).
func (f *FuncCtx) fieldHeapStatic(x *ast.SelectorExpr) (name string) {
	defer func() {
		if r := recover(); r != nil {
			if _, ok := r.(unsupported); !ok {
				panic(r)
			}
			name = ""
		}
	}()
	sel := f.tinfo().Selections[x]
	if sel == nil || sel.Kind() != types.FieldVal {
		return ""
	}
	// walk down to the pointer-typed base
	var chain []*ast.SelectorExpr
	cur := x
	for {
		chain = append([]*ast.SelectorExpr{cur}, chain...)
		xt := types.Unalias(f.typeOf(cur.X))
		if _, ok := xt.Underlying().(*types.Pointer); ok {
			break
		}
		inner, ok := ast.Unparen(cur.X).(*ast.SelectorExpr)
		if !ok {
			return ""
		}
		if s2 := f.tinfo().Selections[inner]; s2 == nil || s2.Kind() != types.FieldVal {
			return ""
		}
		cur = inner
	}
	owner, st0 := derefStruct(types.Unalias(f.typeOf(chain[0].X)))
	if owner == nil {
		return ""
	}
	var names []string
	var ft types.Type
	curS := st0
	for _, c := range chain {
		s := f.tinfo().Selections[c]
		for _, idx := range s.Index() {
			fv := curS.Field(idx)
			names = append(names, fv.Name())
			ft = fv.Type()
			if ns, ok := types.Unalias(fv.Type()).Underlying().(*types.Struct); ok {
				curS = ns
			}
		}
	}
	hn, _ := f.w.fieldHeap(owner, strings.Join(names, "."), ft, f.bv)
	return hn
}

// sliceAliasCheck: slices are modelled as values, so two heap fields sharing one backing array cannot be seen by the model.
// In functions marked `opt freshslices=1` (the Clone family: a clone must not share storage with its origin) a slice-typed
// heap field may therefore only be assigned a freshly made slice (make / composite literal / nil / append to nil); copying an
// existing slice header into a heap field is reported as a failed obligation.
func (f *FuncCtx) sliceAliasCheck(st *State, lt types.Type, rhs ast.Expr) {
	if f.con == nil || f.con.Opts["freshslices"] == "" || lt == nil {
		return
	}
	if _, ok := types.Unalias(lt).Underlying().(*types.Slice); !ok {
		return
	}
	fresh := false
	switch r := ast.Unparen(rhs).(type) {
	case *ast.CompositeLit:
		fresh = true
	case *ast.Ident:
		fresh = r.Name == "nil"
	case *ast.CallExpr:
		if id, ok := ast.Unparen(r.Fun).(*ast.Ident); ok {
			if id.Name == "make" {
				fresh = true
			}
			if id.Name == "append" && len(r.Args) > 0 {
				if a0, ok := ast.Unparen(r.Args[0]).(*ast.Ident); ok && a0.Name == "nil" {
					fresh = true
				}
				if c0, ok := ast.Unparen(r.Args[0]).(*ast.CallExpr); ok {
					// append([]T(nil), ...) / append(make(...), ...)
					if tv, ok := f.tinfo().Types[c0.Fun]; ok && tv.IsType() {
						fresh = true
					}
					if cid, ok := ast.Unparen(c0.Fun).(*ast.Ident); ok && cid.Name == "make" {
						fresh = true
					}
				}
			}
		}
	}
	if !fresh {
		f.oblige(st, "false", f.site("slicealias"), "slicealias", "a slice-typed heap field is assigned an existing slice (shared backing array; aliasing is outside the slice model)", nil, f.pos(rhs))
	}
}

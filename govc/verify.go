package main

import (
	"fmt"
	"go/ast"
	"go/format"
	"go/types"
	"os"
	"path/filepath"
	"regexp"
	"sort"
	"strings"
)

var preludeText string

func loadPrelude(dir string) error {
	b, err := os.ReadFile(filepath.Join(dir, "prelude.smt2"))
	if err != nil {
		return err
	}
	preludeText = string(b)
	return nil
}

func (w *World) newFuncCtx(key string) *FuncCtx {
	return &FuncCtx{w: w, key: shortName(key), declSet: map[string]bool{}, usedSpec: map[string]bool{}, siteCount: map[string]int{},
		loopOrd: map[ast.Node]int{}, retOrd: map[ast.Node]int{}, localsByName: map[string][]*types.Var{}, usedCons: map[string]bool{},
		assumed: map[string]bool{}, names0: map[string]Term{}, recoverT: "0"}
}

// translateGlobals turns spec functions and axioms into SMT text (once per world).
func (w *World) translateGlobals() (err error) {
	defer func() {
		if r := recover(); r != nil {
			switch e := r.(type) {
			case cerror:
				err = fmt.Errorf("spec: %s", e.msg)
			case unsupported:
				err = fmt.Errorf("spec: %s", e.msg)
			default:
				panic(r)
			}
		}
	}()
	g := w.newFuncCtx("<globals>")
	g.noHeap = true
	st := newState()
	// uninterpreted declarations first (they may be used by definitions from other files), then definitions in file order
	var ordered []*SpecFunc
	for _, sf := range w.specOrder {
		if sf.Body == nil {
			ordered = append(ordered, sf)
		}
	}
	for _, sf := range w.specOrder {
		if sf.Body != nil {
			ordered = append(ordered, sf)
		}
	}
	for _, sf := range ordered {
		if sf.Macro {
			continue
		}
		rs, _ := w.specSort(sf.PkgName, sf.Result)
		var ps, pn []string
		env := &CEnv{f: g, st: st, pkgName: sf.PkgName, bound: map[string]Term{}, names: map[string]Term{}}
		for _, p := range sf.Params {
			s, gt := w.specSort(sf.PkgName, p.Type)
			nm := "a!" + p.Name
			ps = append(ps, s)
			pn = append(pn, "("+nm+" "+s+")")
			env.bound[p.Name] = Term{S: nm, Sort: s, GoT: gt}
		}
		if sf.Body == nil {
			if strings.Contains(preludeText, " "+sf.Name+" ") || w.rawDefines(sf.Name) {
				continue // declared by the prelude / raw smt
			}
			if len(ps) == 0 {
				w.specSMT = append(w.specSMT, "(declare-const "+sf.Name+" "+rs+")")
			} else {
				w.specSMT = append(w.specSMT, "(declare-fun "+sf.Name+" ("+strings.Join(ps, " ")+") "+rs+")")
			}
			continue
		}
		g.curSpec = sf.Name
		b := env.coerceLit(env.tr(sf.Body), rs)
		if b.Sort != rs {
			return fmt.Errorf("spec function %s: body has sort %s, declared %s", sf.Name, b.Sort, rs)
		}
		kw := "define-fun"
		if sf.Rec {
			kw = "define-fun-rec"
		}
		w.specSMT = append(w.specSMT, "("+kw+" "+sf.Name+" ("+strings.Join(pn, " ")+") "+rs+" "+b.S+")")
	}
	for _, ax := range w.axioms {
		env := &CEnv{f: g, st: st, pkgName: ax.Pkg, bound: map[string]Term{}, names: map[string]Term{}}
		g.curSpec = "axiom " + ax.Label
		w.axiomSMT = append(w.axiomSMT, env.boolT(ax.Expr))
	}
	w.globalDecls = g.decls
	return nil
}

func (w *World) rawDefines(name string) bool {
	for _, r := range w.rawSMT {
		if strings.Contains(r, " "+name+" ") {
			return true
		}
	}
	return false
}

func funcSourceHash(w *World, fi *FuncInfo, c *Contract) string {
	var sb strings.Builder
	format.Node(&sb, w.fset, fi.Decl)
	if c != nil {
		sb.WriteString(c.Header)
		for _, cl := range c.Requires {
			sb.WriteString(cl.Text)
		}
		for _, cl := range c.Ensures {
			sb.WriteString(cl.Text)
		}
	}
	return hashStr(sb.String())
}

// verifyFunc symbolically executes one function under its contract and returns its obligations.
func (w *World) verifyFunc(key string) (f *FuncCtx, err error) {
	fi := w.funcs[key]
	c := w.contracts[key]
	if fi == nil || c == nil {
		return nil, fmt.Errorf("no function/contract for %s", key)
	}
	f = w.newFuncCtx(key)
	f.info, f.con, f.bv = fi, c, c.IntsBV
	defer func() {
		if r := recover(); r != nil {
			switch e := r.(type) {
			case cerror:
				err = fmt.Errorf("%s: contract error: %s", shortName(key), e.msg)
			case unsupported:
				err = fmt.Errorf("%s: outside the verified subset: %s", shortName(key), e.msg)
			default:
				panic(r)
			}
		}
	}()
	// does any clause talk about allocation?
	for _, cl := range append(append([]*Clause{}, c.Requires...), c.Ensures...) {
		if strings.Contains(cl.Text, "fresh(") || strings.Contains(cl.Text, "allocated(") {
			f.useAlloc = true
		}
	}
	if c.Opts["alloc"] != "" {
		f.useAlloc = true
	}
	// ordinals
	nl, nr := 0, 0
	hasRecover := false
	ast.Inspect(fi.Decl.Body, func(n ast.Node) bool {
		switch x := n.(type) {
		case *ast.ForStmt, *ast.RangeStmt:
			nl++
			f.loopOrd[n] = nl
		case *ast.ReturnStmt:
			nr++
			f.retOrd[n] = nr
		case *ast.CallExpr:
			if id, ok := x.Fun.(*ast.Ident); ok && id.Name == "recover" {
				hasRecover = true
			}
		case *ast.Ident:
			if v, ok := fi.Pkg.TypesInfo.Defs[x].(*types.Var); ok {
				f.localsByName[x.Name] = append(f.localsByName[x.Name], v)
			}
		}
		return true
	})
	for ord := range c.Invariants {
		if ord < 1 || ord > nl {
			return nil, fmt.Errorf("%s: invariant@%d but the function has %d loops (contract orphaned)", shortName(key), ord, nl)
		}
	}
	f.track = hasRecover || c.NoPanic || c.PanicsOnly != nil || len(c.PanicEns) > 0
	sig := fi.Obj.Type().(*types.Signature)
	st := newState()
	bindVar := func(v *types.Var, name string) Term {
		t := f.havocVal(st, "in_"+v.Name(), v.Type())
		st.vars[v] = t
		if name != "" {
			f.names0[name] = t
		}
		return t
	}
	if sig.Recv() != nil {
		if fi.Decl.Recv != nil && len(fi.Decl.Recv.List) > 0 && len(fi.Decl.Recv.List[0].Names) > 0 {
			rv := fi.Pkg.TypesInfo.Defs[fi.Decl.Recv.List[0].Names[0]].(*types.Var)
			f.recvVar = rv
			bindVar(rv, c.RecvName)
		} else if c.RecvName != "" {
			f.names0[c.RecvName] = f.havocVal(st, "in_recv", sig.Recv().Type())
		}
	}
	pi := 0
	for _, fld := range fi.Decl.Type.Params.List {
		if len(fld.Names) == 0 {
			if pi < len(c.Params) {
				f.names0[c.Params[pi]] = f.havocVal(st, "in_anon", sig.Params().At(pi).Type())
			}
			pi++
			continue
		}
		for _, n := range fld.Names {
			name := ""
			if pi < len(c.Params) {
				name = c.Params[pi]
			}
			if n.Name == "_" {
				if name != "" {
					f.names0[name] = f.havocVal(st, "in_anon", sig.Params().At(pi).Type())
				}
			} else {
				v := fi.Pkg.TypesInfo.Defs[n].(*types.Var)
				f.params = append(f.params, v)
				bindVar(v, name)
			}
			pi++
		}
	}
	if fi.Decl.Type.Results != nil {
		for _, fld := range fi.Decl.Type.Results.List {
			for _, n := range fld.Names {
				if n.Name == "_" {
					continue
				}
				v := fi.Pkg.TypesInfo.Defs[n].(*types.Var)
				f.results = append(f.results, v)
				st.vars[v] = f.zero(v.Type())
			}
		}
	}
	// requires
	for _, rq := range c.Requires {
		env := f.conEnv(c, st, nil, f.names0)
		st.assume(env.boolT(rq.Expr))
	}
	f.initSt = st.clone()
	// cover: the precondition (with axioms) must be satisfiable
	cov := &Obligation{ID: f.key + "#cover/requires", Func: f.key, Kind: "cover", PC: append([]string(nil), st.pc...), Goal: "false", Expect: "sat",
		Clause: "requires and trusted axioms are jointly satisfiable"}
	f.obls = append(f.obls, cov)
	for _, ga := range c.GhostEntry {
		env := f.conEnv(c, st, f.initSt, f.names0)
		cur := f.ghostTerm(st, ga.Target)
		v := env.coerceLit(env.tr(ga.Expr), cur.Sort)
		st.ghost[ga.Target] = Term{S: v.S, Sort: cur.Sort, GoT: cur.GoT}
	}
	fl := f.block(st, fi.Decl.Body.List)
	f.drain(fl)
	if len(fl.Breaks) > 0 || len(fl.Continues) > 0 {
		unsup("break/continue escaping the function body")
	}
	rets := fl.Returns
	if fl.Normal != nil {
		if sig.Results().Len() > 0 && len(f.results) == 0 {
			// unreachable fallthrough (Go guarantees a terminating statement)
		} else {
			n := fl.Normal
			n.ndefer = len(f.deferred)
			n.site = "end"
			n.ret = nil
			for _, rv := range f.results {
				n.ret = append(n.ret, n.vars[rv])
			}
			rets = append(rets, n)
		}
	}
	panics := fl.Panics
	// deferred functions
	if len(f.deferred) > 0 {
		var rets2 []*State
		for _, r := range rets {
			r2, p2 := f.runDeferred(r, "0")
			rets2 = append(rets2, r2...)
			panics = append(panics, p2...)
		}
		rets = rets2
		if hasRecover && len(panics) > 0 {
			// group panic edges by how many deferred calls were registered when they were raised
			byN := map[int][]*State{}
			var escaped []*State
			for _, p := range panics {
				if p.ndefer == 0 {
					escaped = append(escaped, p) // raised before any defer statement ran: nothing recovers it
				} else {
					byN[p.ndefer] = append(byN[p.ndefer], p)
				}
			}
			panics = escaped
			var ns []int
			for n := range byN {
				ns = append(ns, n)
			}
			sort.Ints(ns)
			for _, n := range ns {
				m := f.merge(byN[n])
				m.ndefer = n
				m.site = "recovered"
				if len(ns) > 1 {
					m.site = fmt.Sprintf("recovered%d", n)
				}
				rv := f.fresh("recovered", SInt)
				m.assume("(not (= " + rv + " 0))")
				r2, p2 := f.runDeferred(m, rv)
				rets = append(rets, r2...)
				panics = append(panics, p2...)
			}
		}
	}
	// panic obligations
	if (c.NoPanic && !c.NoPanicTrusted) || c.PanicsOnly != nil {
		for _, p := range panics {
			goal := "false"
			if c.PanicsOnly != nil {
				env := f.conEnv(c, f.initSt, nil, f.names0)
				goal = env.boolT(c.PanicsOnly)
			}
			f.oblige(p, goal, "nopanic@"+p.site, "nopanic", "no panic escapes (edge "+p.site+")", c.NoPanicProps, "")
		}
	}
	for _, p := range panics {
		for _, pe := range c.PanicEns {
			env := f.conEnv(c, p, f.initSt, f.names0)
			f.oblige(p, env.boolT(pe.Expr), fmt.Sprintf("panic_ensures%d@%s", pe.N, p.site), "panic_ensures", pe.Text, pe.Props, "")
		}
	}
	// ensures at every return
	covered := false
	for _, r := range rets {
		for _, ga := range c.GhostExit {
			names := f.retNames(r)
			env := f.conEnv(c, r, f.initSt, names)
			cur := f.ghostTerm(r, ga.Target)
			v := env.coerceLit(env.tr(ga.Expr), cur.Sort)
			r.ghost[ga.Target] = Term{S: v.S, Sort: cur.Sort, GoT: cur.GoT}
		}
		names := f.retNames(r)
		for _, en := range c.Ensures {
			if en.Assumed {
				continue
			}
			env := f.conEnv(c, r, f.initSt, names)
			g := env.boolT(en.Expr)
			id := fmt.Sprintf("ensures%d@%s", en.N, r.site)
			if en.Label != "" {
				id = fmt.Sprintf("ensures.%s@%s", en.Label, r.site)
			}
			f.oblige(r, g, id, "ensures", en.Text, en.Props, "")
		}
		f.frameObligations(r)
		if !covered {
			covered = true
			f.obls = append(f.obls, &Obligation{ID: f.key + "#cover/exit@" + r.site, Func: f.key, Kind: "cover", PC: append([]string(nil), r.pc...),
				Goal: "false", Expect: "sat", Clause: "a normal exit is reachable under the precondition"})
		}
	}
	if c.Pure && len(f.impure) > 0 {
		seen := map[string]bool{}
		var rs []string
		for _, r := range f.impure {
			if !seen[r] {
				seen[r] = true
				rs = append(rs, r)
			}
		}
		f.obls = append(f.obls, &Obligation{ID: f.key + "#isfunc", Func: f.key, Kind: "isfunc", Goal: "false", Expect: "unsat",
			Clause: "declared isfunc (deterministic function of its arguments) but: " + strings.Join(rs, "; ")})
	}
	h := funcSourceHash(w, fi, c)
	for _, o := range f.obls {
		o.FuncHash = h
	}
	return f, nil
}

func (f *FuncCtx) retNames(r *State) map[string]Term {
	names := map[string]Term{}
	for k, v := range f.names0 {
		names[k] = v
	}
	for i, n := range f.con.Results {
		if i < len(r.ret) {
			names[n] = r.ret[i]
		}
	}
	return names
}

// runDeferred executes the deferred calls (LIFO) on an exit state.
func (f *FuncCtx) runDeferred(st *State, recoverVal string) (rets []*State, panics []*State) {
	savedRec := f.recoverT
	f.recoverT = recoverVal
	defer func() { f.recoverT = savedRec }()
	site := st.site
	cur := st
	origRet := st.ret
	nd := st.ndefer
	if nd > len(f.deferred) {
		nd = len(f.deferred)
	}
	for i := nd - 1; i >= 0 && cur != nil; i-- {
		d := f.deferred[i].(*ast.CallExpr)
		if fl, ok := ast.Unparen(d.Fun).(*ast.FuncLit); ok {
			flow := f.block(cur, fl.Body.List)
			f.drain(flow)
			panics = append(panics, flow.Panics...)
			outs := append([]*State{flow.Normal}, flow.Returns...)
			cur = f.merge(outs)
		} else {
			f.call(cur, d)
			fl2 := &Flow{}
			f.drain(fl2)
			panics = append(panics, fl2.Panics...)
		}
	}
	if cur != nil {
		cur.site = site
		cur.ret = nil
		if len(f.results) > 0 {
			for _, rv := range f.results {
				cur.ret = append(cur.ret, cur.vars[rv])
			}
		} else {
			cur.ret = origRet
		}
		rets = append(rets, cur)
	}
	return
}

// frameObligations: heap arrays and ghosts changed by the body but not listed in modifies must be unchanged
// on every object that existed at entry.
func (f *FuncCtx) frameObligations(r *State) {
	c := f.con
	if c.ModAll || c.Opts["noframe"] != "" {
		return
	}
	allowedH := map[string]bool{}
	allowedG := map[string]bool{}
	for _, m := range c.Modifies {
		hs, gs := f.resolveMod(c, m)
		for _, h := range hs {
			if strings.HasPrefix(h, "fresh:") {
				continue // only fresh objects may be written: the allocation-relative frame obligation stays
			}
			allowedH[h] = true
		}
		for _, g := range gs {
			allowedG[g] = true
		}
	}
	for _, ga := range append(append([]GhostAssign{}, c.GhostEntry...), c.GhostExit...) {
		allowedG[ga.Target] = true
	}
	var pend []string
	for h := range r.pending {
		pend = append(pend, h)
	}
	sort.Strings(pend)
	for _, h := range pend {
		f.heapTerm(r, h, f.w.heapSorts[h]) // materialize lazy frames so that they are checked
	}
	var hk []string
	for h := range r.heap {
		hk = append(hk, h)
	}
	sort.Strings(hk)
	for _, h := range hk {
		if allowedH[h] || h == "alloc" {
			continue
		}
		srt := f.w.heapSorts[h]
		init := f.heapTerm(f.initSt, h, srt)
		if r.heap[h] == init {
			continue
		}
		var goal string
		if strings.HasPrefix(srt, "(Array Int ") && !strings.HasPrefix(h, "G_") {
			al := f.heapTerm(f.initSt, "alloc", "(Array Int Bool)")
			goal = "(forall ((q!p Int)) (=> (or (select " + al + " q!p) (= q!p 0)) (= (select " + r.heap[h] + " q!p) (select " + init + " q!p))))"
			if ks, _, ok := innerArray(srt); ok {
				// map heaps hold one array per object: compare them pointwise (equivalent by extensionality, and what the
				// pointwise invariants about maps can discharge)
				goal = "(forall ((q!p Int) (q!k " + ks + ")) (=> (or (select " + al + " q!p) (= q!p 0)) (= (select (select " + r.heap[h] + " q!p) q!k) (select (select " + init + " q!p) q!k))))"
			}
			if !f.useAlloc {
				goal = "(= " + r.heap[h] + " " + init + ")"
			}
		} else {
			goal = "(= " + r.heap[h] + " " + init + ")"
		}
		f.oblige(r, goal, "frame("+h+")@"+r.site, "frame", "modifies does not list "+h+": it must be unchanged", nil, "")
	}
	var gk []string
	for g := range r.ghost {
		gk = append(gk, g)
	}
	sort.Strings(gk)
	for _, g := range gk {
		if allowedG[g] {
			continue
		}
		init := f.ghostTerm(f.initSt, g)
		if r.ghost[g].S == init.S {
			continue
		}
		f.oblige(r, "(= "+r.ghost[g].S+" "+init.S+")", "frame("+g+")@"+r.site, "frame", "modifies does not list "+g, nil, "")
	}
}

// ---------------- query assembly ----------------

func (w *World) sliceDecls() string {
	var sb strings.Builder
	for _, name := range w.sliceOrd {
		es := w.sliceSorts[name]
		fmt.Fprintf(&sb, "(declare-datatypes ((%s 0)) (((mk_%s (len_%s Int) (arr_%s (Array Int %s))))))\n", name, name, name, name, es)
		fmt.Fprintf(&sb, "(declare-const nilarr_%s (Array Int %s))\n(define-fun nil_%s () %s (mk_%s 0 nilarr_%s))\n", name, es, name, name, name, name)
	}
	return sb.String()
}

func symbolsIn(s string) map[string]bool {
	m := map[string]bool{}
	for _, t := range sexpTokens(s) {
		if t != "(" && t != ")" {
			m[t] = true
		}
	}
	return m
}

func (w *World) buildQuery(f *FuncCtx, o *Obligation) string {
	var body strings.Builder
	for _, p := range o.PC {
		p = filterTagged(p, o.Props)
		if p == "" {
			continue
		}
		body.WriteString("(assert " + p + ")\n")
	}
	if o.Goal != "false" || o.Expect == "unsat" {
		body.WriteString("(assert (not " + o.Goal + "))\n")
	}
	bodyS := body.String()
	syms := symbolsIn(bodyS)
	// spec functions: non-recursive always; all in order (later ones may use earlier ones)
	var specs []string
	needed := map[int]bool{}
	// fixpoint: include spec funcs referenced from body or from included spec funcs / axioms
	var axIncl []bool = make([]bool, len(w.axiomSMT))
	w.symOnce.Do(func() {
		w.specSyms = make([]map[string]bool, len(w.specSMT))
		w.specName = make([]string, len(w.specSMT))
		for i, s := range w.specSMT {
			w.specSyms[i] = symbolsIn(s)
			toks := sexpTokens(s)
			if len(toks) > 2 {
				w.specName[i] = toks[2]
			}
		}
		w.axSyms = make([]map[string]bool, len(w.axiomSMT))
		for i, a := range w.axiomSMT {
			w.axSyms[i] = symbolsIn(a)
		}
		w.userSym = map[string]bool{}
		for _, n := range w.specName {
			w.userSym[n] = true
		}
		for _, fn := range w.preludeFuns() {
			w.userSym[fn] = true
		}
	})
	specSyms, specName, axSyms, userSym := w.specSyms, w.specName, w.axSyms, w.userSym
	changed := true
	for changed {
		changed = false
		for i := range w.specSMT {
			if !needed[i] && syms[specName[i]] {
				needed[i] = true
				for s := range specSyms[i] {
					if !syms[s] {
						syms[s] = true
					}
				}
				changed = true
			}
		}
		for i := range w.axiomSMT {
			if axIncl[i] {
				continue
			}
			hit := false
			if lbl := w.axioms[i].Label; strings.HasPrefix(lbl, "od_") {
				if f != nil && f.con != nil {
					for _, want := range strings.Split(f.con.Opts["axioms"], ",") {
						if strings.TrimSpace(want) == lbl {
							hit = true
						}
					}
				}
				for _, want := range o.Axioms {
					if want == lbl {
						hit = true
					}
				}
				if hit {
					axIncl[i] = true
					for s := range axSyms[i] {
						syms[s] = true
					}
					changed = true
				}
				continue
			}
			for s := range axSyms[i] {
				if userSym[s] && syms[s] {
					hit = true
					break
				}
			}
			if hit {
				axIncl[i] = true
				for s := range axSyms[i] {
					syms[s] = true
				}
				changed = true
			}
		}
	}
	for i, s := range w.specSMT {
		if needed[i] {
			specs = append(specs, s)
		}
	}
	var q strings.Builder
	q.WriteString("(set-option :produce-models true)\n(set-logic ALL)\n")
	q.WriteString(preludeText)
	q.WriteString("\n")
	q.WriteString("\x00SLICEDECLS\x00")
	for _, r := range w.rawSMT {
		q.WriteString(r + "\n")
	}
	// string literals used (only those: a query must not depend on what else the run has looked at), in a stable order
	var lits []string
	var usedLits []string
	for _, s := range w.strOrd {
		if syms[w.strLits[s]] {
			usedLits = append(usedLits, s)
		}
	}
	sort.Strings(usedLits)
	for _, s := range usedLits {
		c := w.strLits[s]
		q.WriteString("(declare-const " + c + " GoStr)\n")
		lits = append(lits, c)
		fmt.Fprintf(&q, "(assert (= (str_len %s) %d))\n", c, len(s))
	}
	if len(lits) > 1 {
		q.WriteString("(assert (distinct " + strings.Join(lits, " ") + "))\n")
	}
	// ground concatenation facts between literals of this query (no string theory): "ab" = "a" ++ "b"
	if syms["str_cat"] && len(lits) <= 40 {
		for _, a := range lits {
			for _, b := range lits {
				ta, tb := litText[a], litText[b]
				if ta == "" || tb == "" {
					continue
				}
				if c, ok := w.strLits[ta+tb]; ok && syms[c] {
					fmt.Fprintf(&q, "(assert (= (str_cat %s %s) %s))\n", a, b, c)
					fmt.Fprintf(&q, "(assert (forall ((q!x GoStr)) (! (= (str_cat %s (str_cat %s q!x)) (str_cat %s q!x)) :pattern ((str_cat %s (str_cat %s q!x))))))\n", a, b, c, a, b)
				}
			}
		}
	}
	for _, d := range w.globalDecls {
		if fs := strings.Fields(d); len(fs) >= 2 && !syms[fs[1]] {
			continue
		}
		q.WriteString(d + "\n")
	}
	for _, s := range specs {
		q.WriteString(s + "\n")
	}
	if f != nil {
		for _, d := range f.decls {
			q.WriteString(d + "\n")
		}
	}
	for _, d := range o.Decls {
		q.WriteString(d + "\n")
	}
	for i, a := range w.axiomSMT {
		if axIncl[i] {
			q.WriteString("(assert " + a + ")\n")
		}
	}
	q.WriteString(bodyS)
	q.WriteString("(check-sat)\n(get-model)\n")
	if o.Expect == "sat" {
		q.WriteString(";cover\n") // vacuity guards: an inconclusive answer is cached too (only `unsat` is a failure)
	}
	// slice sorts: only those the query mentions (closed under element sorts), in declaration order
	text := q.String()
	used := map[string]bool{}
	for changed := true; changed; {
		changed = false
		for _, name := range w.sliceOrd {
			if used[name] {
				continue
			}
			if strings.Contains(text, name+" ") || strings.Contains(text, name+")") || strings.Contains(text, "_"+name+" ") {
				used[name] = true
				changed = true
				continue
			}
			for other := range used {
				if strings.Contains(w.sliceSorts[other], name) {
					used[name] = true
					changed = true
				}
			}
		}
	}
	var sd strings.Builder
	for _, name := range w.sliceOrd {
		if !used[name] {
			continue
		}
		es := w.sliceSorts[name]
		fmt.Fprintf(&sd, "(declare-datatypes ((%s 0)) (((mk_%s (len_%s Int) (arr_%s (Array Int %s))))))\n", name, name, name, name, es)
		fmt.Fprintf(&sd, "(declare-const nilarr_%s (Array Int %s))\n(define-fun nil_%s () %s (mk_%s 0 nilarr_%s))\n", name, es, name, name, name, name)
	}
	return strings.Replace(text, "\x00SLICEDECLS\x00", sd.String(), 1)
}

var preludeFunCache []string

func (w *World) preludeFuns() []string {
	if preludeFunCache != nil {
		return preludeFunCache
	}
	toks := sexpTokens(preludeText)
	for i := 0; i+2 < len(toks); i++ {
		if toks[i] == "(" && (toks[i+1] == "declare-fun" || toks[i+1] == "define-fun" || toks[i+1] == "declare-const") {
			preludeFunCache = append(preludeFunCache, toks[i+2])
		}
	}
	return preludeFunCache
}

var reTagged = regexp.MustCompile(`#tags:([A-Za-z0-9,]+)# `)

// filterTagged drops (replaces by true) facts tagged for other properties than the obligation's.
func filterTagged(p string, props []string) string {
	if !strings.Contains(p, "#tags:") {
		return p
	}
	if strings.HasPrefix(p, "#tags:") {
		m := reTagged.FindStringSubmatch(p)
		rest := p[len(m[0]):]
		if len(props) == 0 {
			return rest
		}
		for _, t := range strings.Split(m[1], ",") {
			if has(props, t) {
				return rest
			}
		}
		return ""
	}
	// tagged facts nested inside a merge disjunction: keep them all (strip markers)
	return reTagged.ReplaceAllString(p, "")
}

// innerArray recognises "(Array Int (Array K V))" and returns K and V.
func innerArray(srt string) (k, v string, ok bool) {
	const pre = "(Array Int (Array "
	if !strings.HasPrefix(srt, pre) || !strings.HasSuffix(srt, "))") {
		return
	}
	rest := srt[len(pre) : len(srt)-2]
	toks := sexpTokens("(" + rest + ")")
	// toks: ( K... V... ) - split the two top-level terms
	i := 1
	end := i
	if toks[i] == "(" {
		end = matchParen(toks, i)
	}
	k = joinToks(toks[i : end+1])
	v = joinToks(toks[end+1 : len(toks)-1])
	if k == "" || v == "" {
		return "", "", false
	}
	return k, v, true
}

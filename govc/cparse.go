package main

// Contract files: comment-only Go files (`//@ ...` lines, build tag verif) in /repo/<pkg>/zz_contracts_verif.go
// and trusted spec files /verif/trusted/*.spec (same clause syntax, one clause per logical line, no //@ prefix).

import (
	"fmt"
	"os"
	"regexp"
	"strconv"
	"strings"
)

// ---------------- contract expression AST ----------------

type CE struct {
	Op    string // int float str bool nil ident sel index call un bin old forall exists
	Name  string // ident name, field name, operator, callee
	Args  []*CE
	Binds []Binder
	Pats  [][]*CE
	Pos   string
}

type Binder struct {
	Name string
	Type string
}

func (c *CE) String() string {
	switch c.Op {
	case "int", "float", "ident", "bool", "nil":
		return c.Name
	case "str":
		return strconv.Quote(c.Name)
	case "sel":
		return c.Args[0].String() + "." + c.Name
	case "index":
		return c.Args[0].String() + "[" + c.Args[1].String() + "]"
	case "call":
		a := []string{}
		for _, x := range c.Args {
			a = append(a, x.String())
		}
		return c.Name + "(" + strings.Join(a, ", ") + ")"
	case "un":
		return c.Name + c.Args[0].String()
	case "bin":
		return "(" + c.Args[0].String() + " " + c.Name + " " + c.Args[1].String() + ")"
	case "old":
		return "old(" + c.Args[0].String() + ")"
	case "forall", "exists":
		b := []string{}
		for _, x := range c.Binds {
			b = append(b, x.Name+" "+x.Type)
		}
		return "(" + c.Op + " " + strings.Join(b, ", ") + " :: " + c.Args[0].String() + ")"
	}
	return "?" + c.Op
}

type Clause struct {
	Kind      string // requires ensures invariant lemma axiom ...
	Expr      *CE
	Props     []string // property tags; empty = all properties the function serves
	Text      string
	N         int    // ordinal within its kind (1-based)
	Label     string // optional name
	Pkg       string // package scope (lemmas / axioms)
	Assumed   bool   // trusted_ensures: assumed at call sites, NOT checked against the body (listed in the trusted base)
	CheckOnly bool   // checks: checked against the body, never assumed at call sites
}

type GhostAssign struct {
	Target string
	Expr   *CE
	Text   string
}

type Contract struct {
	File     string
	PkgName  string // package name scope for resolving identifiers
	Header   string
	RecvName string
	RecvType string // e.g. "*RuleEntry", "io.Reader", ""
	FuncName string // may be qualified for externs: strings.Contains
	Params   []string
	Results  []string
	Extern   bool

	Requires       []*Clause
	Ensures        []*Clause
	PanicEns       []*Clause // hold on the panic exit (for callers with recover)
	Modifies       []string
	ModAll         bool
	Invariants     map[int][]*Clause
	Decreases      map[int]*CE
	Unroll         map[int]int
	NoPanic        bool
	NoPanicProps   []string
	NoPanicTrusted bool
	Implementers   []string
	PanicsOnly     *CE // panics only if P (nopanic under !P)
	IntsBV         bool
	Pure           bool // no heap effect, deterministic: callers may treat as function of args (+heap)
	Serves         []string
	GhostEntry     []GhostAssign
	GhostExit      []GhostAssign
	Inline         bool
	Opts           map[string]string
}

type SpecFunc struct {
	Name    string
	Params  []Binder
	Result  string
	Body    *CE // nil = uninterpreted
	Rec     bool
	PkgName string
	Text    string
	Macro   bool
}

type GhostVar struct {
	Name    string
	Type    string
	PkgName string
}

type SpecFile struct {
	Contracts []*Contract
	Funcs     []*SpecFunc
	Axioms    []*Clause
	Lemmas    []*Clause
	Ghosts    []GhostVar
	Consts    map[string]*CE
	RawSMT    []string
	Trusted   []string // verbatim text of extern / axiom clauses (for the evidence)
	ModSets   map[string][]string
}

var clauseKW = map[string]bool{
	"func": true, "extern": true, "trusted_nopanic": true, "implementers": true, "requires": true, "ensures": true, "checks": true, "panic_ensures": true, "trusted_ensures": true, "modifies": true,
	"invariant": true, "decreases": true, "unroll": true, "nopanic": true, "maypanic": true, "panics_only_if": true,
	"ints": true, "pure": true, "serves": true, "ghost": true, "ghost_entry": true, "ghost_exit": true,
	"axiom": true, "lemma": true, "const": true, "smt": true, "package": true, "inline": true, "opt": true,
	"spec": true, "isfunc": true, "macro": true, "modset": true,
}

var reHead = regexp.MustCompile(`^([a-z_]+)(?:@(\d+))?(?:\[([A-Za-z0-9, ]+)\])?(?:\s+|$)`)

// readClauses splits the text into logical clauses.
func readClauses(path string, goFile bool) ([]string, error) {
	data, err := os.ReadFile(path)
	if err != nil {
		return nil, err
	}
	var out []string
	for _, ln := range strings.Split(string(data), "\n") {
		t := strings.TrimSpace(ln)
		if goFile {
			if !strings.HasPrefix(t, "//@") {
				continue
			}
			t = strings.TrimSpace(strings.TrimPrefix(t, "//@"))
		} else {
			if strings.HasPrefix(t, "#") {
				continue
			}
		}
		// strip trailing comment
		if i := strings.Index(t, " // "); i >= 0 {
			t = strings.TrimSpace(t[:i])
		} else if strings.HasPrefix(t, "//") {
			t = ""
		}
		if t == "" {
			continue
		}
		m := reHead.FindStringSubmatch(t)
		if m != nil && clauseKW[m[1]] {
			out = append(out, t)
		} else if len(out) > 0 {
			out[len(out)-1] += " " + t
		} else {
			return nil, fmt.Errorf("%s: text before first clause: %q", path, t)
		}
	}
	return out, nil
}

var reFuncHdr = regexp.MustCompile(`^func\s*(?:\(\s*(\w+)\s+([^)]+?)\s*\))?\s*([\w./\-]+)\s*\(([^)]*)\)\s*(?:\(([^)]*)\))?\s*$`)

func splitNames(s string) []string {
	var r []string
	for _, p := range strings.Split(s, ",") {
		p = strings.TrimSpace(p)
		if p != "" {
			// allow "name Type" - keep only the name
			if i := strings.IndexByte(p, ' '); i >= 0 {
				p = p[:i]
			}
			r = append(r, p)
		}
	}
	return r
}

func parseSpecFile(path string, goFile bool, defaultPkg string) (*SpecFile, error) {
	clauses, err := readClauses(path, goFile)
	if err != nil {
		return nil, err
	}
	sf := &SpecFile{Consts: map[string]*CE{}, ModSets: map[string][]string{}}
	pkgName := defaultPkg
	var cur *Contract
	counts := map[string]int{}
	fail := func(cl string, e error) error { return fmt.Errorf("%s: clause %q: %v", path, cl, e) }
	for _, cl := range clauses {
		m := reHead.FindStringSubmatch(cl)
		kw := m[1]
		ord := 0
		if m[2] != "" {
			ord, _ = strconv.Atoi(m[2])
		}
		var props []string
		if m[3] != "" {
			for _, p := range strings.Split(m[3], ",") {
				props = append(props, strings.TrimSpace(p))
			}
		}
		rest := strings.TrimSpace(cl[len(m[0]):])
		extern := false
		if kw == "extern" {
			extern = true
			sf.Trusted = append(sf.Trusted, cl)
			m2 := reHead.FindStringSubmatch(rest)
			if m2 == nil {
				return nil, fail(cl, fmt.Errorf("bad extern"))
			}
			kw = m2[1]
			cl = rest
			rest = strings.TrimSpace(rest[len(m2[0]):])
		}
		parseE := func(s string) (*CE, error) {
			p := &cparser{src: s}
			p.lex()
			if p.err != nil {
				return nil, p.err
			}
			e := p.parseExpr(0)
			if p.err == nil && p.i < len(p.toks) {
				p.err = fmt.Errorf("trailing tokens at %q", p.toks[p.i].s)
			}
			return e, p.err
		}
		// optional "name:" label for ensures/requires/lemma/axiom
		label := ""
		takeLabel := func() {
			if i := strings.Index(rest, ":"); i > 0 && !strings.HasPrefix(rest[i:], "::") {
				cand := strings.TrimSpace(rest[:i])
				if regexp.MustCompile(`^[A-Za-z_][\w\-./]*$`).MatchString(cand) {
					label = cand
					rest = strings.TrimSpace(rest[i+1:])
				}
			}
		}
		switch kw {
		case "package":
			pkgName = rest
			cur = nil
		case "func":
			hm := reFuncHdr.FindStringSubmatch(cl)
			if hm == nil {
				return nil, fail(cl, fmt.Errorf("bad function header"))
			}
			cur = &Contract{File: path, PkgName: pkgName, Header: cl, RecvName: hm[1], RecvType: strings.TrimSpace(hm[2]),
				FuncName: hm[3], Params: splitNames(hm[4]), Results: splitNames(hm[5]), Extern: extern,
				Invariants: map[int][]*Clause{}, Decreases: map[int]*CE{}, Unroll: map[int]int{}, Opts: map[string]string{}}
			sf.Contracts = append(sf.Contracts, cur)
			counts = map[string]int{}
		case "requires", "ensures", "panic_ensures", "invariant", "trusted_ensures", "checks":
			if cur == nil {
				return nil, fail(cl, fmt.Errorf("clause outside function"))
			}
			if cur.Extern && !extern {
				sf.Trusted = append(sf.Trusted, "  "+cur.Header+" :: "+cl)
			}
			takeLabel()
			e, err := parseE(rest)
			if err != nil {
				return nil, fail(cl, err)
			}
			ck := kw
			if kw == "invariant" {
				ck = fmt.Sprintf("inv@%d", ord)
			}
			counts[ck]++
			c := &Clause{Kind: kw, Expr: e, Props: props, Text: rest, N: counts[ck], Label: label}
			if kw == "checks" {
				// a postcondition that is checked against the body but never assumed at call sites (formats nobody relies on)
				c.CheckOnly = true
				c.Kind = "ensures"
				cur.Ensures = append(cur.Ensures, c)
			}
			if kw == "trusted_ensures" {
				c.Assumed = true
				c.Kind = "ensures"
				sf.Trusted = append(sf.Trusted, "  "+cur.Header+" :: "+cl)
				cur.Ensures = append(cur.Ensures, c)
			}
			switch kw {
			case "requires":
				cur.Requires = append(cur.Requires, c)
			case "ensures":
				cur.Ensures = append(cur.Ensures, c)
			case "panic_ensures":
				cur.PanicEns = append(cur.PanicEns, c)
			case "invariant":
				cur.Invariants[ord] = append(cur.Invariants[ord], c)
			}
		case "modifies":
			if cur == nil {
				return nil, fail(cl, fmt.Errorf("clause outside function"))
			}
			if cur.Extern && !extern {
				sf.Trusted = append(sf.Trusted, "  "+cur.Header+" :: "+cl)
			}
			for _, it := range strings.Split(rest, ",") {
				it = strings.TrimSpace(it)
				if it == "*" {
					cur.ModAll = true
				} else if it != "" {
					cur.Modifies = append(cur.Modifies, it)
				}
			}
		case "decreases":
			e, err := parseE(rest)
			if err != nil {
				return nil, fail(cl, err)
			}
			cur.Decreases[ord] = e
		case "unroll":
			n, _ := strconv.Atoi(rest)
			cur.Unroll[ord] = n
		case "nopanic":
			cur.NoPanic = true
			cur.NoPanicProps = props
			if cur.Extern && !extern {
				sf.Trusted = append(sf.Trusted, "  "+cur.Header+" :: nopanic")
			}
		case "trusted_nopanic":
			// callers assume the function does not panic; NOT checked against the body (listed in the trusted base)
			cur.NoPanic = true
			cur.NoPanicTrusted = true
			sf.Trusted = append(sf.Trusted, "  "+cur.Header+" :: "+cl)
		case "implementers":
			// closed world of an interface-method contract: the repository methods implementing it, each of which must be
			// checked against (at least) the same no-panic clause and a frame inside this contract's modifies list
			for _, it := range strings.Split(rest, ",") {
				if it = strings.TrimSpace(it); it != "" {
					cur.Implementers = append(cur.Implementers, it)
				}
			}
		case "maypanic":
			cur.NoPanic = false
		case "panics_only_if":
			e, err := parseE(rest)
			if err != nil {
				return nil, fail(cl, err)
			}
			cur.PanicsOnly = e
		case "isfunc":
			// `isfunc`: the function is a deterministic function of its arguments (checked syntactically on the body);
			// call sites may then use the function symbols fn_<Name>_<i>(args) / fnok_<Name>(args)
			cur.Pure = true
		case "ints":
			cur.IntsBV = rest == "bv"
		case "inline":
			cur.Inline = true
		case "opt":
			kv := strings.SplitN(rest, "=", 2)
			if len(kv) == 2 {
				cur.Opts[strings.TrimSpace(kv[0])] = strings.TrimSpace(kv[1])
			} else {
				cur.Opts[rest] = "1"
			}
		case "serves":
			cur.Serves = append(cur.Serves, strings.Fields(strings.ReplaceAll(rest, ",", " "))...)
		case "ghost":
			// ghost var name Type
			f := strings.Fields(rest)
			if len(f) >= 3 && f[0] == "var" {
				sf.Ghosts = append(sf.Ghosts, GhostVar{Name: f[1], Type: strings.Join(f[2:], " "), PkgName: pkgName})
			} else {
				return nil, fail(cl, fmt.Errorf("ghost var NAME TYPE"))
			}
			cur = nil
		case "ghost_entry", "ghost_exit":
			i := strings.Index(rest, "=")
			if i < 0 {
				return nil, fail(cl, fmt.Errorf("ghost assignment needs ="))
			}
			e, err := parseE(strings.TrimSpace(rest[i+1:]))
			if err != nil {
				return nil, fail(cl, err)
			}
			ga := GhostAssign{Target: strings.TrimSpace(rest[:i]), Expr: e, Text: rest}
			if kw == "ghost_entry" {
				cur.GhostEntry = append(cur.GhostEntry, ga)
			} else {
				cur.GhostExit = append(cur.GhostExit, ga)
			}
			if cur.Extern && !extern {
				sf.Trusted = append(sf.Trusted, "  "+cur.Header+" :: "+cl)
			}
		case "pure", "spec", "macro":
			// pure func name(a T, b U) R { return e }   |   pure func name(a T) R
			f, err := parseSpecFunc(rest, parseE)
			if err != nil {
				return nil, fail(cl, err)
			}
			f.Macro = kw == "macro"
			f.PkgName = pkgName
			f.Text = cl
			if f.Body == nil || extern {
				sf.Trusted = append(sf.Trusted, cl)
			}
			sf.Funcs = append(sf.Funcs, f)
			cur = nil
		case "axiom", "lemma":
			takeLabel()
			e, err := parseE(rest)
			if err != nil {
				return nil, fail(cl, err)
			}
			c := &Clause{Kind: kw, Expr: e, Props: props, Text: rest, Label: label, Pkg: pkgName}
			if kw == "axiom" {
				sf.Axioms = append(sf.Axioms, c)
				if !extern {
					sf.Trusted = append(sf.Trusted, cl)
				}
			} else {
				sf.Lemmas = append(sf.Lemmas, c)
			}
			cur = nil
		case "const":
			i := strings.Index(rest, "=")
			if i < 0 {
				return nil, fail(cl, fmt.Errorf("const needs ="))
			}
			e, err := parseE(strings.TrimSpace(rest[i+1:]))
			if err != nil {
				return nil, fail(cl, err)
			}
			sf.Consts[strings.TrimSpace(rest[:i])] = e
			cur = nil
		case "modset":
			i := strings.Index(rest, "=")
			if i < 0 {
				return nil, fail(cl, fmt.Errorf("modset NAME = items"))
			}
			var items []string
			for _, it := range strings.Split(rest[i+1:], ",") {
				if it = strings.TrimSpace(it); it != "" {
					// qualify Type.Field with the defining package so the set can be used from other packages
					if pkgName != "" && regexp.MustCompile(`^[A-Z]\w*\.[\w*]+$`).MatchString(it) {
						it = pkgName + "." + it
					}
					items = append(items, it)
				}
			}
			sf.ModSets[strings.TrimSpace(rest[:i])] = items
			cur = nil
		case "smt":
			sf.RawSMT = append(sf.RawSMT, rest)
			sf.Trusted = append(sf.Trusted, cl)
			cur = nil
		default:
			return nil, fail(cl, fmt.Errorf("unknown clause keyword %s", kw))
		}
	}
	return sf, nil
}

var reSpecFunc = regexp.MustCompile(`^func\s+(\w+)\s*\(([^)]*)\)\s*([^{]*?)\s*(\{.*\})?\s*$`)

func parseSpecFunc(s string, parseE func(string) (*CE, error)) (*SpecFunc, error) {
	m := reSpecFunc.FindStringSubmatch(s)
	if m == nil {
		return nil, fmt.Errorf("bad pure func")
	}
	f := &SpecFunc{Name: m[1], Result: strings.TrimSpace(m[3])}
	// params: "a T, b U" or "a, b T"
	var pend []string
	for _, p := range strings.Split(m[2], ",") {
		p = strings.TrimSpace(p)
		if p == "" {
			continue
		}
		fs := strings.SplitN(p, " ", 2)
		if len(fs) == 1 {
			pend = append(pend, fs[0])
			continue
		}
		for _, q := range pend {
			f.Params = append(f.Params, Binder{q, strings.TrimSpace(fs[1])})
		}
		pend = nil
		f.Params = append(f.Params, Binder{fs[0], strings.TrimSpace(fs[1])})
	}
	if len(pend) > 0 {
		return nil, fmt.Errorf("untyped params %v", pend)
	}
	if m[4] != "" {
		b := strings.TrimSpace(m[4])
		b = strings.TrimSpace(b[1 : len(b)-1])
		b = strings.TrimSpace(strings.TrimPrefix(b, "return"))
		e, err := parseE(b)
		if err != nil {
			return nil, err
		}
		f.Body = e
		f.Rec = mentionsCall(e, f.Name)
	}
	return f, nil
}

func mentionsCall(e *CE, name string) bool {
	if e == nil {
		return false
	}
	if e.Op == "call" && e.Name == name {
		return true
	}
	for _, a := range e.Args {
		if mentionsCall(a, name) {
			return true
		}
	}
	return false
}

// ---------------- lexer / Pratt parser ----------------

type ctok struct {
	k string // id num str op
	s string
}

type cparser struct {
	src  string
	toks []ctok
	i    int
	err  error
}

var ops3 = []string{"<==>"}
var ops2x = []string{"==>", "<=>"}
var ops2 = []string{"==", "!=", "<=", ">=", "&&", "||", "::", "<<", ">>", "&^"}

func (p *cparser) lex() {
	s := p.src
	i := 0
	for i < len(s) {
		c := s[i]
		switch {
		case c == ' ' || c == '\t' || c == '\n':
			i++
		case c == '"' || c == '`':
			j := i + 1
			for j < len(s) && s[j] != c {
				if s[j] == '\\' && c == '"' {
					j++
				}
				j++
			}
			if j >= len(s) {
				p.err = fmt.Errorf("unterminated string")
				return
			}
			v, err := strconv.Unquote(s[i : j+1])
			if err != nil {
				p.err = err
				return
			}
			p.toks = append(p.toks, ctok{"str", v})
			i = j + 1
		case c >= '0' && c <= '9':
			j := i
			for j < len(s) && (isIdentChar(s[j]) || s[j] == '.' && j+1 < len(s) && s[j+1] >= '0' && s[j+1] <= '9' ||
				((s[j] == '+' || s[j] == '-') && (s[j-1] == 'e' || s[j-1] == 'E') && !strings.HasPrefix(s[i:j], "0x"))) {
				j++
			}
			p.toks = append(p.toks, ctok{"num", s[i:j]})
			i = j
		case isIdentStart(c):
			j := i + 1
			for j < len(s) && isIdentChar(s[j]) {
				j++
			}
			p.toks = append(p.toks, ctok{"id", s[i:j]})
			i = j
		default:
			matched := false
			for _, set := range [][]string{ops3, ops2x, ops2} {
				for _, o := range set {
					if strings.HasPrefix(s[i:], o) {
						p.toks = append(p.toks, ctok{"op", o})
						i += len(o)
						matched = true
						break
					}
				}
				if matched {
					break
				}
			}
			if !matched {
				p.toks = append(p.toks, ctok{"op", string(c)})
				i++
			}
		}
	}
}

func isIdentStart(c byte) bool {
	return c == '_' || c == '$' || (c >= 'a' && c <= 'z') || (c >= 'A' && c <= 'Z')
}
func isIdentChar(c byte) bool { return isIdentStart(c) || (c >= '0' && c <= '9') }

func (p *cparser) peek() ctok {
	if p.i < len(p.toks) {
		return p.toks[p.i]
	}
	return ctok{"eof", ""}
}
func (p *cparser) next() ctok { t := p.peek(); p.i++; return t }
func (p *cparser) accept(s string) bool {
	if t := p.peek(); t.k == "op" && t.s == s {
		p.i++
		return true
	}
	return false
}
func (p *cparser) expect(s string) {
	if !p.accept(s) && p.err == nil {
		p.err = fmt.Errorf("expected %q at token %d (%q) in %q", s, p.i, p.peek().s, p.src)
	}
}

var binPrec = map[string]int{
	"<==>": 1, "<=>": 1, "==>": 2, "||": 3, "&&": 4,
	"==": 5, "!=": 5, "<": 5, "<=": 5, ">": 5, ">=": 5,
	"+": 6, "-": 6, "|": 6, "^": 6,
	"*": 7, "/": 7, "%": 7, "&": 7, "<<": 7, ">>": 7, "&^": 7,
}

func (p *cparser) parseExpr(minPrec int) *CE {
	if p.err != nil {
		return nil
	}
	lhs := p.parseUnary()
	for p.err == nil {
		t := p.peek()
		if t.k != "op" {
			break
		}
		pr, ok := binPrec[t.s]
		if !ok || pr < minPrec {
			break
		}
		p.next()
		var rhs *CE
		if t.s == "==>" {
			rhs = p.parseExpr(pr) // right assoc
		} else {
			rhs = p.parseExpr(pr + 1)
		}
		op := t.s
		if op == "<=>" {
			op = "<==>"
		}
		lhs = &CE{Op: "bin", Name: op, Args: []*CE{lhs, rhs}}
	}
	return lhs
}

func (p *cparser) parseUnary() *CE {
	t := p.peek()
	if t.k == "op" && (t.s == "!" || t.s == "-") {
		p.next()
		return &CE{Op: "un", Name: t.s, Args: []*CE{p.parseUnary()}}
	}
	if t.k == "id" && (t.s == "forall" || t.s == "exists") {
		p.next()
		q := &CE{Op: t.s}
		// binders: name type {, name type} ::
		for {
			n := p.next()
			if n.k != "id" {
				p.err = fmt.Errorf("binder name expected in %q", p.src)
				return nil
			}
			ty := ""
			for p.peek().k != "eof" && !(p.peek().k == "op" && (p.peek().s == "," || p.peek().s == "::" || p.peek().s == "{")) {
				ty += p.next().s
			}
			q.Binds = append(q.Binds, Binder{n.s, ty})
			if p.accept(",") {
				continue
			}
			for p.accept("{") {
				var grp []*CE
				for {
					grp = append(grp, p.parseExpr(0))
					if p.accept(",") {
						continue
					}
					p.expect("}")
					break
				}
				q.Pats = append(q.Pats, grp)
			}
			p.expect("::")
			break
		}
		q.Args = []*CE{p.parseExpr(0)}
		return q
	}
	return p.parsePostfix(p.parsePrimary())
}

func (p *cparser) parsePrimary() *CE {
	t := p.next()
	switch t.k {
	case "num":
		if strings.ContainsAny(t.s, ".") || (strings.ContainsAny(t.s, "eE") && !strings.HasPrefix(t.s, "0x")) {
			return &CE{Op: "float", Name: t.s}
		}
		return &CE{Op: "int", Name: t.s}
	case "str":
		return &CE{Op: "str", Name: t.s}
	case "id":
		switch t.s {
		case "true", "false":
			return &CE{Op: "bool", Name: t.s}
		case "nil":
			return &CE{Op: "nil", Name: "nil"}
		case "old":
			p.expect("(")
			e := p.parseExpr(0)
			p.expect(")")
			return &CE{Op: "old", Args: []*CE{e}}
		}
		return &CE{Op: "ident", Name: t.s}
	case "op":
		if t.s == "(" {
			e := p.parseExpr(0)
			p.expect(")")
			return e
		}
		if t.s == "*" { // *T type in cast position, e.g. typeid(*Expression)
			n := p.next()
			name := n.s
			for p.accept(".") {
				name += "." + p.next().s
			}
			return &CE{Op: "ident", Name: "*" + name}
		}
	}
	if p.err == nil {
		p.err = fmt.Errorf("unexpected token %q in %q", t.s, p.src)
	}
	return &CE{Op: "bool", Name: "true"}
}

func (p *cparser) parsePostfix(e *CE) *CE {
	for p.err == nil {
		switch {
		case p.accept("."):
			n := p.next()
			if n.k != "id" {
				p.err = fmt.Errorf("field name expected in %q", p.src)
				return e
			}
			e = &CE{Op: "sel", Name: n.s, Args: []*CE{e}}
		case p.accept("["):
			ix := p.parseExpr(0)
			p.expect("]")
			e = &CE{Op: "index", Args: []*CE{e, ix}}
		case p.peek().k == "op" && p.peek().s == "(":
			// call: callee must be ident or sel chain
			name := calleeName(e)
			if name == "" {
				return e
			}
			p.next()
			var args []*CE
			if !p.accept(")") {
				for {
					args = append(args, p.parseExpr(0))
					if p.accept(",") {
						continue
					}
					p.expect(")")
					break
				}
			}
			e = &CE{Op: "call", Name: name, Args: args}
		default:
			return e
		}
	}
	return e
}

func calleeName(e *CE) string {
	switch e.Op {
	case "ident":
		return e.Name
	case "sel":
		b := calleeName(e.Args[0])
		if b == "" {
			return ""
		}
		return b + "." + e.Name
	}
	return ""
}

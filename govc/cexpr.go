package main

// Translation of contract expressions (CE) to SMT terms.

import (
	"fmt"
	"go/constant"
	"go/types"
	"math/big"
	"strconv"
	"strings"
)

const SIntLit = "IntLit" // pseudo-sort of an integer literal before it meets a typed operand
const SFloatLit = "FloatLit"

type CEnv struct {
	f       *FuncCtx
	st, old *State
	names   map[string]Term
	bound   map[string]Term
	pkgName string
	locals  func(name string) (Term, bool)
	depth   int
}

func (env *CEnv) with(name string, t Term) *CEnv {
	e2 := *env
	e2.bound = map[string]Term{}
	for k, v := range env.bound {
		e2.bound[k] = v
	}
	e2.bound[name] = t
	return &e2
}

type cerror struct{ msg string }

func cfail(format string, a ...interface{}) { panic(cerror{fmt.Sprintf(format, a...)}) }

// specSort maps a type name used in a contract to an SMT sort (+ Go type when it is one).
func (w *World) specSort(pkgName, ty string) (Sort, types.Type) {
	ty = strings.TrimSpace(ty)
	switch ty {
	case "int", "Int", "int64", "uint64", "uint":
		return SInt, nil
	case "bv64", "BV64":
		return SBV64, nil
	case "float64", "F64":
		return SF64, nil
	case "bool", "Bool":
		return SBool, nil
	case "string", "Str", "GoStr":
		return SStr, nil
	case "RV":
		return SRV, nil
	case "Time":
		return STime, nil
	case "Ref", "error":
		return SInt, nil
	}
	if strings.HasPrefix(ty, "array[") { // array[K]V  -> (Array K V)
		depth := 0
		for i := 5; i < len(ty); i++ {
			if ty[i] == '[' {
				depth++
			} else if ty[i] == ']' {
				depth--
				if depth == 0 {
					k, _ := w.specSort(pkgName, ty[6:i])
					v, _ := w.specSort(pkgName, ty[i+1:])
					return "(Array " + k + " " + v + ")", nil
				}
			}
		}
	}
	t, err := w.lookupType(pkgName, ty)
	if err != nil {
		cfail("type %q: %v", ty, err)
	}
	return w.sortOf(t, false), t
}

func bvLit(v *big.Int) string {
	m := new(big.Int).Lsh(big.NewInt(1), 64)
	x := new(big.Int).Mod(v, m)
	return fmt.Sprintf("(_ bv%s 64)", x.String())
}

func intLitSMT(v *big.Int) string {
	if v.Sign() < 0 {
		return "(- " + new(big.Int).Neg(v).String() + ")"
	}
	return v.String()
}

func fpLit(f float64) string {
	// exact: via bits
	bits := fmt.Sprintf("%064b", mathFloat64bits(f))
	return "(fp #b" + bits[:1] + " #b" + bits[1:12] + " #b" + bits[12:] + ")"
}

func (env *CEnv) coerceLit(t Term, want Sort) Term {
	if t.Sort == SIntLit {
		v, _ := new(big.Int).SetString(t.S, 0)
		switch want {
		case SBV64:
			return Term{S: bvLit(v), Sort: SBV64}
		case SF64:
			f, _ := new(big.Float).SetInt(v).Float64()
			return Term{S: fpLit(f), Sort: SF64}
		default:
			return Term{S: intLitSMT(v), Sort: SInt}
		}
	}
	if t.Sort == SFloatLit {
		f, err := strconv.ParseFloat(t.S, 64)
		if err != nil {
			cfail("bad float literal %s", t.S)
		}
		return Term{S: fpLit(f), Sort: SF64}
	}
	return t
}

func (env *CEnv) unify(a, b Term) (Term, Term) {
	isLit := func(s Sort) bool { return s == SIntLit || s == SFloatLit }
	switch {
	case isLit(a.Sort) && isLit(b.Sort):
		if a.Sort == SFloatLit || b.Sort == SFloatLit {
			return env.coerceLit(a, SF64), env.coerceLit(b, SF64)
		}
		return env.coerceLit(a, SInt), env.coerceLit(b, SInt)
	case isLit(a.Sort):
		return env.coerceLit(a, b.Sort), b
	case isLit(b.Sort):
		return a, env.coerceLit(b, a.Sort)
	}
	return a, b
}

func (env *CEnv) boolT(e *CE) string {
	t := env.tr(e)
	if t.Sort != SBool {
		cfail("expected Bool, got %s in %s", t.Sort, e.String())
	}
	return t.S
}

func constToTerm(v constant.Value) (Term, bool) {
	switch v.Kind() {
	case constant.Bool:
		return Term{S: fmt.Sprint(constant.BoolVal(v)), Sort: SBool}, true
	case constant.Int:
		bi, _ := new(big.Int).SetString(v.ExactString(), 10)
		return Term{S: bi.String(), Sort: SIntLit}, true
	case constant.Float:
		f, _ := constant.Float64Val(v)
		return Term{S: strconv.FormatFloat(f, 'g', -1, 64), Sort: SFloatLit}, true
	}
	return Term{}, false
}

func (env *CEnv) tr(e *CE) Term {
	w := env.f.w
	switch e.Op {
	case "int":
		return Term{S: e.Name, Sort: SIntLit}
	case "float":
		return Term{S: e.Name, Sort: SFloatLit}
	case "str":
		return Term{S: w.strLit(e.Name), Sort: SStr}
	case "bool":
		return Term{S: e.Name, Sort: SBool}
	case "nil":
		return Term{S: "0", Sort: SInt}
	case "ident":
		return env.ident(e.Name)
	case "old":
		if env.old == nil {
			cfail("old() not available here")
		}
		e2 := *env
		e2.st = env.old
		return e2.tr(e.Args[0])
	case "sel":
		// package-qualified constant?
		if e.Args[0].Op == "ident" {
			if _, isVal := env.lookupValue(e.Args[0].Name); !isVal {
				if p := w.pkgByName(e.Args[0].Name); p != nil {
					o := p.Types.Scope().Lookup(e.Name)
					if c, ok := o.(*types.Const); ok {
						if t, ok := constToTerm(c.Val()); ok {
							return t
						}
						if c.Val().Kind() == constant.String {
							return Term{S: w.strLit(constant.StringVal(c.Val())), Sort: SStr}
						}
					}
					if v, ok := o.(*types.Var); ok {
						return env.f.readGlobal(env.st, v)
					}
					cfail("cannot use %s.%s in a contract", e.Args[0].Name, e.Name)
				}
			}
		}
		base := env.tr(e.Args[0])
		return env.field(base, e.Name)
	case "index":
		base := env.tr(e.Args[0])
		ix := env.tr(e.Args[1])
		return env.index(base, ix)
	case "un":
		a := env.tr(e.Args[0])
		if e.Name == "!" {
			if a.Sort != SBool {
				cfail("! on %s", a.Sort)
			}
			return Term{S: "(not " + a.S + ")", Sort: SBool}
		}
		switch a.Sort {
		case SIntLit:
			return Term{S: "-" + a.S, Sort: SIntLit}
		case SFloatLit:
			return Term{S: "-" + a.S, Sort: SFloatLit}
		case SInt:
			return Term{S: "(- " + a.S + ")", Sort: SInt}
		case SBV64:
			return Term{S: "(bvneg " + a.S + ")", Sort: SBV64}
		case SF64:
			return Term{S: "(fp.neg " + a.S + ")", Sort: SF64}
		}
		cfail("unary - on %s", a.Sort)
	case "bin":
		return env.bin(e)
	case "forall", "exists":
		e2 := env
		var bs []string
		for _, b := range e.Binds {
			s, gt := w.specSort(env.pkgName, b.Type)
			env.f.nfresh++
			nm := fmt.Sprintf("q!%s!%d", b.Name, env.f.nfresh)
			e2 = e2.with(b.Name, Term{S: nm, Sort: s, GoT: gt})
			bs = append(bs, "("+nm+" "+s+")")
		}
		body := e2.boolT(e.Args[0])
		if len(e.Pats) > 0 {
			var ps []string
			for _, grp := range e.Pats {
				var ts []string
				for _, p := range grp {
					ts = append(ts, e2.tr(p).S)
				}
				ps = append(ps, ":pattern ("+strings.Join(ts, " ")+")")
			}
			body = "(! " + body + " " + strings.Join(ps, " ") + ")"
		}
		return Term{S: "(" + e.Op + " (" + strings.Join(bs, " ") + ") " + body + ")", Sort: SBool}
	case "call":
		return env.call(e)
	}
	cfail("cannot translate %s", e.String())
	return Term{}
}

func (env *CEnv) lookupValue(name string) (Term, bool) {
	if t, ok := env.bound[name]; ok {
		return t, true
	}
	if t, ok := env.names[name]; ok {
		return t, true
	}
	if env.locals != nil {
		if t, ok := env.locals(name); ok {
			return t, true
		}
	}
	if strings.HasPrefix(name, "$") {
		if t, ok := env.st.ghost[name]; ok {
			return t, true
		}
		if _, ok := env.f.w.ghosts[name]; ok {
			return env.f.ghostTerm(env.st, name), true
		}
	}
	return Term{}, false
}

func (env *CEnv) ident(name string) Term {
	w := env.f.w
	if t, ok := env.lookupValue(name); ok {
		return t
	}
	if c, ok := w.consts[name]; ok {
		return env.tr(c)
	}
	if p := w.pkgByName(env.pkgName); p != nil {
		if o := p.Types.Scope().Lookup(name); o != nil {
			if c, ok := o.(*types.Const); ok {
				if t, ok := constToTerm(c.Val()); ok {
					return t
				}
				if c.Val().Kind() == constant.String {
					return Term{S: w.strLit(constant.StringVal(c.Val())), Sort: SStr}
				}
			}
			if v, ok := o.(*types.Var); ok {
				return env.f.readGlobal(env.st, v)
			}
		}
	}
	switch name {
	case "MaxInt64":
		return Term{S: "9223372036854775807", Sort: SIntLit}
	case "MinInt64":
		return Term{S: "-9223372036854775808", Sort: SIntLit}
	case "MaxUint64":
		return Term{S: "18446744073709551615", Sort: SIntLit}
	case "MaxInt32":
		return Term{S: "2147483647", Sort: SIntLit}
	case "MinInt32":
		return Term{S: "-2147483648", Sort: SIntLit}
	}
	if sf, ok := w.specFuncs[name]; ok && len(sf.Params) == 0 {
		s, gt := w.specSort(sf.PkgName, sf.Result)
		return Term{S: name, Sort: s, GoT: gt}
	}
	cfail("unknown identifier %q", name)
	return Term{}
}

func derefStruct(t types.Type) (*types.Named, *types.Struct) {
	if t == nil {
		return nil, nil
	}
	t = types.Unalias(t)
	if p, ok := t.Underlying().(*types.Pointer); ok {
		t = types.Unalias(p.Elem())
	}
	n, ok := t.(*types.Named)
	if !ok {
		return nil, nil
	}
	s, ok := n.Underlying().(*types.Struct)
	if !ok {
		return nil, nil
	}
	return n, s
}

func (env *CEnv) field(base Term, name string) Term {
	switch base.Sort {
	case SRV:
		m := map[string][2]string{"kind": {"rv_kind", SInt}, "bits": {"rv_bits", SBV64}, "f": {"rv_f", SF64}, "s": {"rv_s", SStr},
			"b": {"rv_b", SBool}, "typ": {"rv_typ", SInt}, "tm": {"rv_tm", STime}, "id": {"rv_id", SInt}}
		if a, ok := m[name]; ok {
			return Term{S: "(" + a[0] + " " + base.S + ")", Sort: a[1]}
		}
	case STime:
		m := map[string][2]string{"wall": {"t_wall", SBV64}, "ext": {"t_ext", SBV64}, "loc": {"t_loc", SInt}}
		if a, ok := m[name]; ok {
			return Term{S: "(" + a[0] + " " + base.S + ")", Sort: a[1]}
		}
	}
	if strings.HasPrefix(base.Sort, "Slice_") && name == "len" {
		return Term{S: "(len_" + base.Sort + " " + base.S + ")", Sort: SInt}
	}
	n, s := derefStruct(base.GoT)
	if n == nil {
		cfail("field %s on a term without struct type (sort %s, %v)", name, base.Sort, base.GoT)
	}
	fv, path := findField(s, name)
	if fv == nil {
		cfail("no field %s in %s", name, n.Obj().Name())
	}
	if _, isStruct := types.Unalias(fv.Type()).Underlying().(*types.Struct); isStruct && namedPath(fv.Type()) != "time.Time" && namedPath(fv.Type()) != "reflect.Value" {
		// embedded/by-value struct: return a pseudo-term remembering the path
		return Term{S: base.S, Sort: "Path:" + path, GoT: types.NewPointer(n)}
	}
	hn, hs := env.f.w.fieldHeap(n, path, fv.Type(), false)
	arr := env.f.heapTerm(env.st, hn, hs)
	return Term{S: "(select " + arr + " " + base.S + ")", Sort: hs[len("(Array Int ") : len(hs)-1], GoT: fv.Type()}
}

// findField looks up a field by name, also through embedded structs; returns the dotted path.
func findField(s *types.Struct, name string) (*types.Var, string) {
	for i := 0; i < s.NumFields(); i++ {
		if s.Field(i).Name() == name {
			return s.Field(i), name
		}
	}
	for i := 0; i < s.NumFields(); i++ {
		if s.Field(i).Embedded() {
			if es, ok := types.Unalias(s.Field(i).Type()).Underlying().(*types.Struct); ok {
				if fv, p := findField(es, name); fv != nil {
					return fv, s.Field(i).Name() + "." + p
				}
			}
		}
	}
	return nil, ""
}

func (env *CEnv) index(base, ix Term) Term {
	f := env.f
	if strings.HasPrefix(base.Sort, "Slice_") {
		ix = env.coerceLit(ix, SInt)
		es := f.w.sliceSorts[base.Sort]
		var et types.Type
		if base.GoT != nil {
			if sl, ok := base.GoT.Underlying().(*types.Slice); ok {
				et = sl.Elem()
			}
		}
		return Term{S: "(select (arr_" + base.Sort + " " + base.S + ") " + ix.S + ")", Sort: es, GoT: et}
	}
	if strings.HasPrefix(base.Sort, "(Array ") {
		k, v := arraySorts(base.Sort)
		ix = env.coerceLit(ix, k)
		return Term{S: "(select " + base.S + " " + ix.S + ")", Sort: v}
	}
	if base.GoT != nil {
		if m, ok := base.GoT.Underlying().(*types.Map); ok {
			ks, vs := f.w.sortOf(m.Key(), false), f.w.sortOf(m.Elem(), false)
			ix = env.coerceLit(ix, ks)
			_, val, _ := f.w.mapHeapsT(m, false)
			arr := f.heapTerm(env.st, val, f.w.heapSorts[val])
			return Term{S: "(select (select " + arr + " " + base.S + ") " + ix.S + ")", Sort: vs, GoT: m.Elem()}
		}
	}
	cfail("cannot index sort %s", base.Sort)
	return Term{}
}

// arraySorts splits "(Array K V)".
func arraySorts(s string) (string, string) {
	inner := strings.TrimSuffix(strings.TrimPrefix(s, "(Array "), ")")
	// K may be parenthesised
	depth := 0
	for i := 0; i < len(inner); i++ {
		switch inner[i] {
		case '(':
			depth++
		case ')':
			depth--
		case ' ':
			if depth == 0 {
				return inner[:i], inner[i+1:]
			}
		}
	}
	return inner, ""
}

func (env *CEnv) bin(e *CE) Term {
	op := e.Name
	switch op {
	case "&&", "||", "==>", "<==>":
		a, b := env.boolT(e.Args[0]), env.boolT(e.Args[1])
		m := map[string]string{"&&": "and", "||": "or", "==>": "=>", "<==>": "="}
		return Term{S: "(" + m[op] + " " + a + " " + b + ")", Sort: SBool}
	}
	a, b := env.unify(env.tr(e.Args[0]), env.tr(e.Args[1]))
	if a.Sort != b.Sort {
		cfail("sort mismatch %s vs %s in %s", a.Sort, b.Sort, e.String())
	}
	s := a.Sort
	mk := func(f string, rs Sort) Term { return Term{S: "(" + f + " " + a.S + " " + b.S + ")", Sort: rs} }
	switch op {
	case "==":
		return mk("=", SBool)
	case "!=":
		return Term{S: "(not (= " + a.S + " " + b.S + "))", Sort: SBool}
	}
	switch s {
	case SInt:
		m := map[string]string{"+": "+", "-": "-", "*": "*", "/": "div", "%": "mod", "<": "<", "<=": "<=", ">": ">", ">=": ">="}
		if f, ok := m[op]; ok {
			rs := SInt
			if strings.ContainsAny(op, "<>") {
				rs = SBool
			}
			return mk(f, rs)
		}
	case SBV64:
		m := map[string]string{"+": "bvadd", "-": "bvsub", "*": "bv_mul", "&": "bvand", "|": "bvor", "^": "bvxor",
			"<": "bvslt", "<=": "bvsle", ">": "bvsgt", ">=": "bvsge", "<<": "bvshl", ">>": "bvashr"}
		if f, ok := m[op]; ok {
			rs := SBV64
			if op == "<" || op == "<=" || op == ">" || op == ">=" {
				rs = SBool
			}
			return mk(f, rs)
		}
	case SF64:
		switch op {
		case "+", "-", "*", "/":
			m := map[string]string{"+": "f_add", "-": "f_sub", "*": "f_mul", "/": "f_div"}
			return Term{S: "(" + m[op] + " " + a.S + " " + b.S + ")", Sort: SF64}
		case "<", "<=", ">", ">=":
			m := map[string]string{"<": "fp.lt", "<=": "fp.leq", ">": "fp.gt", ">=": "fp.geq"}
			return mk(m[op], SBool)
		}
	case SStr:
		switch op {
		case "+":
			return Term{S: strCat(a.S, b.S), Sort: SStr}
		case "<":
			return mk("str_lt", SBool)
		case ">":
			return Term{S: "(str_lt " + b.S + " " + a.S + ")", Sort: SBool}
		case "<=":
			return Term{S: "(not (str_lt " + b.S + " " + a.S + "))", Sort: SBool}
		case ">=":
			return Term{S: "(not (str_lt " + a.S + " " + b.S + "))", Sort: SBool}
		}
	}
	cfail("operator %s not defined on sort %s (%s)", op, s, e.String())
	return Term{}
}

// strCat builds a right-nested concatenation (associativity by normalisation: no string theory needed).
func strCat(a, b string) string {
	// conditional strings: the concatenation is pushed into the branches, so a string built along several paths becomes an
	// ite-tree whose leaves are flat, literal-folded concatenations (canonical on both the code and the contract side)
	if len(a)+len(b) < 400000 {
		if c, x, y, ok := splitIte(a); ok {
			return "(ite " + c + " " + strCat(x, b) + " " + strCat(y, b) + ")"
		}
		if c, x, y, ok := splitIte(b); ok {
			return "(ite " + c + " " + strCat(a, x) + " " + strCat(a, y) + ")"
		}
	}
	// literal folding: "" is the unit, adjacent literals merge
	if ta, ok := litText[a]; ok {
		if ta == "" {
			return b
		}
		if tb, ok := litText[b]; ok && litWorld != nil {
			return litWorld.strLit(ta + tb)
		}
		if strings.HasPrefix(b, "(str_cat strlit!") && litWorld != nil {
			toks := sexpTokens(b)
			if tb, ok := litText[toks[2]]; ok {
				rest := joinToks(toks[3 : len(toks)-1])
				return "(str_cat " + litWorld.strLit(ta+tb) + " " + rest + ")"
			}
		}
	}
	if tb, ok := litText[b]; ok && tb == "" {
		return a
	}
	if strings.HasPrefix(a, "(str_cat ") {
		toks := sexpTokens(a)
		// (str_cat X Y): split X and Y
		i := 2
		var xEnd int
		if toks[i] == "(" {
			xEnd = matchParen(toks, i)
		} else {
			xEnd = i
		}
		x := joinToks(toks[i : xEnd+1])
		y := joinToks(toks[xEnd+1 : len(toks)-1])
		t := strCat(y, b)
		if _, _, _, ok := splitIte(t); ok {
			return strCat(x, t)
		}
		return "(str_cat " + x + " " + t + ")"
	}
	return "(str_cat " + a + " " + b + ")"
}

// splitIte splits "(ite c x y)" into its three parts.
func splitIte(s string) (c, x, y string, ok bool) {
	if !strings.HasPrefix(s, "(ite ") {
		return
	}
	parts := topLevelArgs(s)
	if len(parts) != 4 {
		return
	}
	return parts[1], parts[2], parts[3], true
}

// topLevelArgs splits "(f a b c)" into [f a b c] at nesting depth 1 (|quoted| symbols respected).
func topLevelArgs(s string) []string {
	var out []string
	depth, start := 0, -1
	inBar := false
	for i := 0; i < len(s); i++ {
		ch := s[i]
		if inBar {
			if ch == '|' {
				inBar = false
			}
			continue
		}
		switch ch {
		case '|':
			inBar = true
			if depth == 1 && start < 0 {
				start = i
			}
		case '(':
			depth++
			if depth == 2 && start < 0 {
				start = i
			}
		case ')':
			depth--
			if depth == 1 && start >= 0 {
				// closes a nested term: token ends only at following space
			}
			if depth == 0 && start >= 0 {
				out = append(out, s[start:i])
				start = -1
			}
		case ' ', '\t', '\n':
			if depth == 1 && start >= 0 {
				out = append(out, s[start:i])
				start = -1
			}
		default:
			if depth == 1 && start < 0 {
				start = i
			}
		}
	}
	return out
}

func joinToks(toks []string) string {
	s := strings.Join(toks, " ")
	s = strings.ReplaceAll(s, "( ", "(")
	s = strings.ReplaceAll(s, " )", ")")
	return s
}

func (env *CEnv) call(e *CE) Term {
	f := env.f
	w := f.w
	arg := func(i int) Term {
		if i >= len(e.Args) {
			cfail("%s: missing argument %d", e.Name, i)
		}
		return env.tr(e.Args[i])
	}
	switch e.Name {
	case "ite":
		c := env.boolT(e.Args[0])
		a, b := env.unify(arg(1), arg(2))
		if a.Sort != b.Sort {
			cfail("ite branches differ: %s vs %s", a.Sort, b.Sort)
		}
		if a.Sort == SIntLit {
			a, b = env.coerceLit(a, SInt), env.coerceLit(b, SInt)
		}
		return Term{S: "(ite " + c + " " + a.S + " " + b.S + ")", Sort: a.Sort, GoT: a.GoT}
	case "len":
		a := arg(0)
		switch {
		case a.Sort == SStr:
			return Term{S: "(str_len " + a.S + ")", Sort: SInt}
		case strings.HasPrefix(a.Sort, "Slice_"):
			return Term{S: "(len_" + a.Sort + " " + a.S + ")", Sort: SInt}
		case a.GoT != nil:
			if m, ok := a.GoT.Underlying().(*types.Map); ok {
				ks, vs := w.sortOf(m.Key(), false), w.sortOf(m.Elem(), false)
				_ = ks
				_ = vs
				_, _, ln := w.mapHeapsT(m, false)
				return Term{S: "(select " + f.heapTerm(env.st, ln, w.heapSorts[ln]) + " " + a.S + ")", Sort: SInt}
			}
		}
		cfail("len of sort %s", a.Sort)
	case "has": // has(m, k): key in map domain
		a := arg(0)
		if a.GoT != nil {
			if m, ok := a.GoT.Underlying().(*types.Map); ok {
				ks, vs := w.sortOf(m.Key(), false), w.sortOf(m.Elem(), false)
				_ = vs
				k := env.coerceLit(arg(1), ks)
				dom, _, _ := w.mapHeapsT(m, false)
				return Term{S: "(and (not (= " + a.S + " 0)) (select (select " + f.heapTerm(env.st, dom, w.heapSorts[dom]) + " " + a.S + ") " + k.S + "))", Sort: SBool}
			}
		}
		cfail("has() needs a map-typed first argument")
	case "int64", "uint64", "int", "uint", "Ref":
		a := arg(0)
		if a.Sort == SIntLit {
			return a
		}
		return Term{S: a.S, Sort: a.Sort}
	case "bv":
		return env.coerceLit(arg(0), SBV64)
	case "sfloat": // signed BV64 -> F64 (Go float64(int64 x))
		a := env.coerceLit(arg(0), SBV64)
		return Term{S: "(bv2f_s " + a.S + ")", Sort: SF64}
	case "ufloat":
		a := env.coerceLit(arg(0), SBV64)
		return Term{S: "(bv2f_u " + a.S + ")", Sort: SF64}
	case "float":
		return env.coerceLit(arg(0), SF64)
	case "f2s": // Go int64(float64 x)
		return Term{S: "((_ fp.to_sbv 64) RTZ " + env.coerceLit(arg(0), SF64).S + ")", Sort: SBV64}
	case "f2u": // Go uint64(float64 x)
		return Term{S: "((_ fp.to_ubv 64) RTZ " + env.coerceLit(arg(0), SF64).S + ")", Sort: SBV64}
	case "f32round": // float64(float32(x))
		return Term{S: "((_ to_fp 11 53) RNE ((_ to_fp 8 24) RNE " + env.coerceLit(arg(0), SF64).S + "))", Sort: SF64}
	case "isNaN":
		return Term{S: "(fp.isNaN " + arg(0).S + ")", Sort: SBool}
	case "isInf":
		return Term{S: "(fp.isInfinite " + arg(0).S + ")", Sort: SBool}
	case "feq":
		a, b := env.unify(arg(0), arg(1))
		return Term{S: "(fp.eq " + a.S + " " + b.S + ")", Sort: SBool}
	case "ult", "ule", "ugt", "uge", "udiv", "urem", "sdiv", "srem", "lshr":
		a, b := env.unify(arg(0), arg(1))
		a, b = env.coerceLit(a, SBV64), env.coerceLit(b, SBV64)
		rs := SBool
		if strings.HasSuffix(e.Name, "div") || strings.HasSuffix(e.Name, "rem") || e.Name == "lshr" {
			rs = SBV64
		}
		fn := "bv" + e.Name
		if rs == SBV64 && e.Name != "lshr" {
			fn = "bv_" + e.Name
		}
		return Term{S: "(" + fn + " " + a.S + " " + b.S + ")", Sort: rs}
	case "typeof":
		return Term{S: "(dyntype " + arg(0).S + ")", Sort: SInt}
	case "typeid":
		if len(e.Args) == 1 && e.Args[0].Op == "str" { // typeid("map[string]any"): type expressions the expression parser cannot read
			t, err := w.lookupType(env.pkgName, unquoteCE(e.Args[0].Name))
			if err != nil {
				cfail("%v", err)
			}
			return Term{S: strconv.Itoa(w.typeID(t)), Sort: SInt}
		}
		if len(e.Args) != 1 || calleeName(e.Args[0]) == "" {
			cfail("typeid(T)")
		}
		t, err := w.lookupType(env.pkgName, calleeName(e.Args[0]))
		if err != nil {
			cfail("%v", err)
		}
		return Term{S: strconv.Itoa(w.typeID(t)), Sort: SInt}
	case "allocmap": // the whole allocation map (to snapshot it into a ghost)
		return Term{S: f.heapTerm(env.st, "alloc", "(Array Int Bool)"), Sort: "(Array Int Bool)"}
	case "allocated":
		return Term{S: "(select " + f.heapTerm(env.st, "alloc", "(Array Int Bool)") + " " + arg(0).S + ")", Sort: SBool}
	case "fresh":
		if env.old == nil {
			cfail("fresh() needs a two-state context")
		}
		p := arg(0)
		return Term{S: "(and (not (= " + p.S + " 0)) (not (select " + f.heapTerm(env.old, "alloc", "(Array Int Bool)") + " " + p.S +
			")) (select " + f.heapTerm(env.st, "alloc", "(Array Int Bool)") + " " + p.S + "))", Sort: SBool}
	case "as": // as(x, *T): retype a reference term
		if len(e.Args) != 2 || (e.Args[1].Op != "ident" && e.Args[1].Op != "str") {
			cfail("as(x, T)")
		}
		tn := e.Args[1].Name
		if e.Args[1].Op == "str" {
			tn = unquoteCE(tn)
		}
		t, err := w.lookupType(env.pkgName, tn)
		if err != nil {
			cfail("%v", err)
		}
		a := arg(0)
		if ts := w.sortOf(t, f.bv); ts != SInt && a.Sort == SInt {
			// as(x, string) / as(x, float64) / as(x, []any): the value boxed in the interface value x (meaningful when typeof(x) is T)
			f.declareFun("box_"+mangle(ts), []string{ts}, SInt)
			f.declareFun("unbox_"+mangle(ts), []string{SInt}, ts)
			return Term{S: "(unbox_" + mangle(ts) + " " + a.S + ")", Sort: ts, GoT: t}
		}
		return Term{S: a.S, Sort: a.Sort, GoT: t}
	case "store":
		a, k, v := arg(0), arg(1), arg(2)
		ks, vs := arraySorts(a.Sort)
		k, v = env.coerceLit(k, ks), env.coerceLit(v, vs)
		return Term{S: "(store " + a.S + " " + k.S + " " + v.S + ")", Sort: a.Sort}
	case "unchanged":
		// unchanged("modset"): every heap array / ghost of the named modset equals its old value
		if env.old == nil || len(e.Args) != 1 || e.Args[0].Op != "str" {
			cfail("unchanged(\"modset\") needs a two-state context")
		}
		items, ok := w.modsets[e.Args[0].Name]
		if !ok {
			cfail("unknown modset %s", e.Args[0].Name)
		}
		var cs []string
		dummy := &Contract{PkgName: env.pkgName}
		for _, it := range items {
			hs, gs := f.resolveMod(dummy, it)
			for _, h := range hs {
				srt := w.heapSorts[h]
				cs = append(cs, "(= "+f.heapTerm(env.st, h, srt)+" "+f.heapTerm(env.old, h, srt)+")")
			}
			for _, g := range gs {
				cs = append(cs, "(= "+f.ghostTerm(env.st, g).S+" "+f.ghostTerm(env.old, g).S+")")
			}
		}
		return Term{S: conj(cs), Sort: SBool}
	case "mkslice":
		// mkslice(len, arr)
		l, a := env.coerceLit(arg(0), SInt), arg(1)
		_, vs := arraySorts(a.Sort)
		ss := w.sliceSort(vs)
		return Term{S: "(mk_" + ss + " " + l.S + " " + a.S + ")", Sort: ss}
	}
	if sf, ok := w.specFuncs[e.Name]; ok {
		if len(sf.Params) != len(e.Args) {
			cfail("%s expects %d arguments", e.Name, len(sf.Params))
		}
		var as []string
		for i, p := range sf.Params {
			ps, _ := w.specSort(sf.PkgName, p.Type)
			a := env.coerceLit(arg(i), ps)
			if a.Sort != ps {
				cfail("%s: argument %d has sort %s, want %s (in %s)", e.Name, i+1, a.Sort, ps, e.String())
			}
			as = append(as, a.S)
		}
		rs, gt := w.specSort(sf.PkgName, sf.Result)
		if sf.Macro {
			if sf.Body == nil {
				cfail("macro %s has no body", sf.Name)
			}
			if env.depth > 40 {
				cfail("macro expansion too deep at %s", sf.Name)
			}
			e2 := *env
			e2.depth = env.depth + 1
			e2.bound = map[string]Term{}
			e2.names = map[string]Term{}
			e2.locals = nil
			e2.pkgName = sf.PkgName
			for i, p := range sf.Params {
				ps, pgt := w.specSort(sf.PkgName, p.Type)
				e2.bound[p.Name] = Term{S: as[i], Sort: ps, GoT: pgt}
			}
			// quantifier-bound names of the caller stay visible only through arguments
			r := e2.tr(sf.Body)
			r = e2.coerceLit(r, rs)
			if r.Sort != rs {
				cfail("macro %s: body sort %s, declared %s", sf.Name, r.Sort, rs)
			}
			r.GoT = gt
			return r
		}
		f.usedSpec[e.Name] = true
		if len(as) == 0 {
			return Term{S: e.Name, Sort: rs, GoT: gt}
		}
		return Term{S: "(" + e.Name + " " + strings.Join(as, " ") + ")", Sort: rs, GoT: gt}
	}
	cfail("unknown function %s in contract", e.Name)
	return Term{}
}

// unquoteCE strips the quotes of a string-literal token used as a type expression.
func unquoteCE(s string) string {
	if u, err := strconv.Unquote(s); err == nil {
		return u
	}
	return strings.Trim(s, "\"")
}

package main

// Built-in models ("intrinsics") of library functions the verified code calls. Each one is part of the
// trusted base: its doc string is copied into the evidence whenever it is used.

import (
	"fmt"
	"go/ast"
	"go/constant"
	"go/token"
	"go/types"
	"strings"
)

type intrinsic struct {
	fn         func(f *FuncCtx, st *State, call *ast.CallExpr, recvE ast.Expr, recv *Term) []Term
	lvalueRecv bool
	doc        string
}

var intrinsics map[string]*intrinsic

func kindOfType(t types.Type) int {
	t = types.Unalias(t)
	if namedPath(t) == "time.Time" {
		return 25
	}
	switch u := t.Underlying().(type) {
	case *types.Basic:
		m := map[types.BasicKind]int{types.Bool: 1, types.Int: 2, types.Int8: 3, types.Int16: 4, types.Int32: 5, types.Int64: 6,
			types.Uint: 7, types.Uint8: 8, types.Uint16: 9, types.Uint32: 10, types.Uint64: 11, types.Uintptr: 12,
			types.Float32: 13, types.Float64: 14, types.String: 24, types.UntypedBool: 1, types.UntypedInt: 2, types.UntypedFloat: 14, types.UntypedString: 24}
		if k, ok := m[u.Kind()]; ok {
			return k
		}
	case *types.Pointer:
		return 22
	case *types.Slice:
		return 23
	case *types.Map:
		return 21
	case *types.Struct:
		return 25
	case *types.Interface:
		return -1 // dynamic
	case *types.Array:
		return 17
	case *types.Signature:
		return 19
	}
	return -2
}

func use(f *FuncCtx, doc string) { f.assumed["T-LIB: "+doc] = true }

// rvOf builds the reflect.Value of a term with static type t.
func rvOf(f *FuncCtx, st *State, v Term, t types.Type) Term {
	use(f, "reflect.ValueOf(x) yields a Value whose Kind/Type/payload are those of x's dynamic type and value")
	if b, ok := types.Unalias(t).Underlying().(*types.Basic); ok && b.Kind() == types.UntypedNil {
		return Term{S: "rv_zero", Sort: SRV}
	}
	k := kindOfType(t)
	r := f.fresh("rv", SRV)
	if k == 24 && v.Sort == SStr {
		// the Value of a string is a function of the string (rv_str): a contract can name the key reflect.ValueOf(field) denotes
		f.declareFun("rv_str", []string{SStr}, SRV)
		r = "(rv_str " + v.S + ")"
	}
	rt := Term{S: r, Sort: SRV}
	if k == -1 {
		// interface-typed operand: dynamic; relate through an uninterpreted function of the reference
		f.declareFun("rv_of_iface", []string{SInt}, SRV)
		st.assume("(= " + r + " (rv_of_iface " + v.S + "))")
		st.assume("(=> (= " + v.S + " 0) (= (rv_kind " + r + ") 0))")
		st.assume("(=> (not (= " + v.S + " 0)) (and (not (= (rv_kind " + r + ") 0)) (not (= (rv_kind " + r + ") 20)) (= (rv_typ " + r + ") (dyntype " + v.S + "))))")
		return rt
	}
	if k < 0 {
		unsup("reflect.ValueOf of %s", t)
	}
	st.assume(fmt.Sprintf("(= (rv_kind %s) %d)", r, k))
	st.assume(fmt.Sprintf("(= (rv_typ %s) %d)", r, f.w.typeID(types.Default(t))))
	switch {
	case k == 1:
		st.assume("(= (rv_b " + r + ") " + v.S + ")")
	case k >= 2 && k <= 12:
		if v.Sort == SBV64 {
			st.assume("(= (rv_bits " + r + ") " + v.S + ")")
		} else {
			st.assume("(= (rv_int " + r + ") " + v.S + ")")
		}
	case k == 13 || k == 14:
		st.assume("(= (rv_f " + r + ") " + v.S + ")")
	case k == 24:
		st.assume("(= (rv_s " + r + ") " + v.S + ")")
	case k == 25 && v.Sort == STime:
		st.assume("(= (rv_tm " + r + ") " + v.S + ")")
	case k == 22 || k == 21:
		st.assume("(= (rv_id " + r + ") " + v.S + ")")
	case k == 23:
		// slice payload not modelled
	}
	return rt
}

func kindIn(v string, lo, hi int) string {
	return fmt.Sprintf("(and (<= %d (rv_kind %s)) (<= (rv_kind %s) %d))", lo, v, v, hi)
}

func init() {
	intrinsics = map[string]*intrinsic{}
	reg := func(key, doc string, fn func(f *FuncCtx, st *State, call *ast.CallExpr, recvE ast.Expr, recv *Term) []Term) {
		intrinsics[key] = &intrinsic{fn: fn, doc: doc}
	}
	arg := func(f *FuncCtx, st *State, call *ast.CallExpr, i int) Term { return f.expr(st, call.Args[i]) }

	// ---- encoding/json.Unmarshal(data, &local): the local is overwritten with an arbitrary value of its type ----
	reg("encoding/json.Unmarshal", "", func(f *FuncCtx, st *State, call *ast.CallExpr, _ ast.Expr, _ *Term) []Term {
		use(f, "json.Unmarshal(data, &v): v becomes an ARBITRARY value of its static type (nothing about the decoded content is assumed; elements of a decoded slice of structs are non-nil objects), the error is arbitrary; no panic, bounded resources (encoding/json itself is not verified)")
		f.expr(st, call.Args[0])
		ue, ok := ast.Unparen(call.Args[1]).(*ast.UnaryExpr)
		var id *ast.Ident
		if ok && ue.Op == token.AND {
			id, _ = ast.Unparen(ue.X).(*ast.Ident)
		}
		if id == nil {
			unsup("json.Unmarshal into something that is not &local at %s", f.pos(call))
		}
		v, _ := f.tinfo().Uses[id].(*types.Var)
		if v == nil {
			unsup("json.Unmarshal target at %s", f.pos(call))
		}
		vt := v.Type()
		switch {
		case valueStructs[namedPath(vt)]:
			st.vars[v] = Term{S: f.allocRef(st, "dec_"+v.Name(), types.NewPointer(vt)).S, Sort: SInt, GoT: vt}
		default:
			nv := f.havocVal(st, "dec_"+v.Name(), vt)
			if sl, ok := types.Unalias(vt).Underlying().(*types.Slice); ok && valueStructs[namedPath(sl.Elem())] {
				st.assume("(forall ((q!i Int)) (! (=> (and (<= 0 q!i) (< q!i (len_" + nv.Sort + " " + nv.S + "))) (not (= (select (arr_" + nv.Sort + " " + nv.S + ") q!i) 0))) :pattern ((select (arr_" + nv.Sort + " " + nv.S + ") q!i))))")
			}
			st.vars[v] = nv
		}
		return []Term{f.havocVal(st, "jsonerr", f.typeOf(call))}
	})
	reg("reflect.ValueOf", "", func(f *FuncCtx, st *State, call *ast.CallExpr, _ ast.Expr, _ *Term) []Term {
		a := call.Args[0]
		t := f.typeOf(a)
		if tv, ok := f.tinfo().Types[a]; ok && tv.IsNil() {
			return []Term{{S: "rv_zero", Sort: SRV}}
		}
		v := f.expr(st, a)
		return []Term{rvOf(f, st, v, t)}
	})
	reg("(reflect.Value).Kind", "", func(f *FuncCtx, st *State, call *ast.CallExpr, _ ast.Expr, r *Term) []Term {
		use(f, "reflect.Value.Kind returns the kind field; never panics")
		return []Term{{S: "(rv_kind " + r.S + ")", Sort: SInt, GoT: f.typeOf(call)}}
	})
	reg("(reflect.Value).Int", "", func(f *FuncCtx, st *State, call *ast.CallExpr, _ ast.Expr, r *Term) []Term {
		use(f, "reflect.Value.Int returns the int64 payload; panics unless Kind is Int..Int64")
		f.panicIf(st, "(not "+kindIn(r.S, 2, 6)+")", f.site("reflect.Int"))
		if f.bv {
			return []Term{{S: "(rv_bits " + r.S + ")", Sort: SBV64, GoT: f.typeOf(call)}}
		}
		return []Term{{S: "(rv_int " + r.S + ")", Sort: SInt, GoT: f.typeOf(call)}}
	})
	reg("(reflect.Value).Uint", "", func(f *FuncCtx, st *State, call *ast.CallExpr, _ ast.Expr, r *Term) []Term {
		use(f, "reflect.Value.Uint returns the uint64 payload; panics unless Kind is Uint..Uintptr")
		f.panicIf(st, "(not "+kindIn(r.S, 7, 12)+")", f.site("reflect.Uint"))
		if f.bv {
			return []Term{{S: "(rv_bits " + r.S + ")", Sort: SBV64, GoT: f.typeOf(call)}}
		}
		t := Term{S: "(rv_int " + r.S + ")", Sort: SInt, GoT: f.typeOf(call)}
		st.assume("(>= " + t.S + " 0)")
		return []Term{t}
	})
	reg("(reflect.Value).Float", "", func(f *FuncCtx, st *State, call *ast.CallExpr, _ ast.Expr, r *Term) []Term {
		use(f, "reflect.Value.Float returns the float64 payload; panics unless Kind is Float32/Float64")
		f.panicIf(st, "(not "+kindIn(r.S, 13, 14)+")", f.site("reflect.Float"))
		return []Term{{S: "(rv_f " + r.S + ")", Sort: SF64, GoT: f.typeOf(call)}}
	})
	reg("(reflect.Value).Bool", "", func(f *FuncCtx, st *State, call *ast.CallExpr, _ ast.Expr, r *Term) []Term {
		use(f, "reflect.Value.Bool returns the bool payload; panics unless Kind is Bool")
		f.panicIf(st, "(not (= (rv_kind "+r.S+") 1))", f.site("reflect.Bool"))
		return []Term{{S: "(rv_b " + r.S + ")", Sort: SBool, GoT: f.typeOf(call)}}
	})
	reg("(reflect.Value).String", "", func(f *FuncCtx, st *State, call *ast.CallExpr, _ ast.Expr, r *Term) []Term {
		use(f, "reflect.Value.String returns the string payload for Kind String, an opaque description otherwise; never panics")
		f.declareFun("rv_repr", []string{SRV}, SStr)
		return []Term{{S: "(ite (= (rv_kind " + r.S + ") 24) (rv_s " + r.S + ") (rv_repr " + r.S + "))", Sort: SStr, GoT: f.typeOf(call)}}
	})
	reg("(reflect.Value).Type", "", func(f *FuncCtx, st *State, call *ast.CallExpr, _ ast.Expr, r *Term) []Term {
		use(f, "reflect.Value.Type returns the dynamic type; panics on the zero Value")
		f.panicIf(st, "(= (rv_kind "+r.S+") 0)", f.site("reflect.Type"))
		st.assume("(= (type_kind (rv_typ " + r.S + ")) (rv_kind " + r.S + "))")
		st.assume("(not (= (rv_typ " + r.S + ") 0))")
		return []Term{{S: "(rv_typ " + r.S + ")", Sort: SInt, GoT: f.typeOf(call)}}
	})
	reg("(reflect.Type).String", "", func(f *FuncCtx, st *State, call *ast.CallExpr, _ ast.Expr, r *Term) []Term {
		use(f, "reflect.Type.String: type_name(t); type_name(t)==\"time.Time\" iff t is time.Time (axiom in trusted/prelude)")
		st.assume(fmt.Sprintf("(= (= (type_name %s) %s) (= %s %d))", r.S, f.w.strLit("time.Time"), r.S, f.w.typeID(f.w.timeType())))
		return []Term{{S: "(type_name " + r.S + ")", Sort: SStr, GoT: f.typeOf(call)}}
	})
	reg("(reflect.Type).Kind", "", func(f *FuncCtx, st *State, call *ast.CallExpr, _ ast.Expr, r *Term) []Term {
		use(f, "reflect.Type.Kind: type_kind(t); for t = v.Type() it equals v.Kind()")
		return []Term{{S: "(type_kind " + r.S + ")", Sort: SInt, GoT: f.typeOf(call)}}
	})
	reg("(reflect.Type).Elem", "", func(f *FuncCtx, st *State, call *ast.CallExpr, _ ast.Expr, r *Term) []Term {
		k := "(type_kind " + r.S + ")"
		f.panicIf(st, "(not (or (= "+k+" 17) (= "+k+" 18) (= "+k+" 21) (= "+k+" 22) (= "+k+" 23)))", f.site("reflect.Type.Elem"))
		return []Term{{S: "(type_elem " + r.S + ")", Sort: SInt, GoT: f.typeOf(call)}}
	})
	reg("(reflect.Value).FieldByName", "", func(f *FuncCtx, st *State, call *ast.CallExpr, _ ast.Expr, r *Term) []Term {
		use(f, "reflect.Value.FieldByName: rv_field(v, name) (zero Value when absent); panics unless Kind is Struct")
		n := arg(f, st, call, 0)
		f.panicIf(st, "(not (= (rv_kind "+r.S+") 25))", f.site("reflect.FieldByName"))
		return []Term{{S: "(rv_field " + r.S + " " + n.S + ")", Sort: SRV, GoT: f.typeOf(call)}}
	})
	reg("(reflect.Value).Index", "", func(f *FuncCtx, st *State, call *ast.CallExpr, _ ast.Expr, r *Term) []Term {
		use(f, "reflect.Value.Index: rv_index(v, i); panics unless Kind is Array/Slice/String and 0 <= i < Len")
		i := arg(f, st, call, 0)
		if i.Sort != SInt {
			unsup("reflect.Index in bv mode")
		}
		k := "(rv_kind " + r.S + ")"
		f.panicIf(st, "(not (or (= "+k+" 17) (= "+k+" 23) (= "+k+" 24)))", f.site("reflect.Index.kind"))
		f.panicIf(st, "(or (< "+i.S+" 0) (>= "+i.S+" (rv_len "+r.S+")))", f.site("reflect.Index.range"))
		return []Term{{S: "(rv_index " + r.S + " " + i.S + ")", Sort: SRV, GoT: f.typeOf(call)}}
	})
	reg("(reflect.Value).Len", "", func(f *FuncCtx, st *State, call *ast.CallExpr, _ ast.Expr, r *Term) []Term {
		use(f, "reflect.Value.Len: rv_len(v) >= 0; panics unless Kind is Array/Chan/Map/Slice/String")
		k := "(rv_kind " + r.S + ")"
		f.panicIf(st, "(not (or (= "+k+" 17) (= "+k+" 18) (= "+k+" 21) (= "+k+" 23) (= "+k+" 24)))", f.site("reflect.Len"))
		st.assume("(>= (rv_len " + r.S + ") 0)")
		return []Term{{S: "(rv_len " + r.S + ")", Sort: SInt, GoT: f.typeOf(call)}}
	})
	reg("(reflect.Value).MapIndex", "", func(f *FuncCtx, st *State, call *ast.CallExpr, _ ast.Expr, r *Term) []Term {
		use(f, "reflect.Value.MapIndex: rv_mapindex(m, key) (zero Value when absent); panics unless Kind is Map or the key is not assignable")
		k := arg(f, st, call, 0)
		f.panicIf(st, "(not (= (rv_kind "+r.S+") 21))", f.site("reflect.MapIndex.kind"))
		f.declareFun("rv_keyok", []string{SRV, SRV}, SBool)
		f.panicIf(st, "(not (rv_keyok "+r.S+" "+k.S+"))", f.site("reflect.MapIndex.key"))
		return []Term{{S: "(rv_mapindex " + r.S + " " + k.S + ")", Sort: SRV, GoT: f.typeOf(call)}}
	})
	reg("(reflect.Value).SetMapIndex", "", func(f *FuncCtx, st *State, call *ast.CallExpr, _ ast.Expr, r *Term) []Term {
		use(f, "reflect.Value.SetMapIndex(m, key, val): panics unless Kind is Map, the map is non-nil and key/val are assignable to the map's key/element types; writes exactly the slot rv_mapslot(m, key) (ghost store $loc) and nothing else")
		k, v := arg(f, st, call, 0), arg(f, st, call, 1)
		f.panicIf(st, "(not (= (rv_kind "+r.S+") 21))", f.site("reflect.SetMapIndex.kind"))
		f.declareFun("rv_mapset_ok", []string{SRV, SRV, SRV}, SBool)
		f.panicIf(st, "(not (rv_mapset_ok "+r.S+" "+k.S+" "+v.S+"))", f.site("reflect.SetMapIndex.types"))
		cur := f.ghostTerm(st, "$loc")
		st.ghost["$loc"] = Term{S: "(store " + cur.S + " (rv_mapslot " + r.S + " " + k.S + ") " + v.S + ")", Sort: cur.Sort}
		return nil
	})
	reg("(reflect.Kind).String", "", func(f *FuncCtx, st *State, call *ast.CallExpr, _ ast.Expr, r *Term) []Term {
		f.declareFun("kind_name", []string{SInt}, SStr)
		return []Term{{S: "(kind_name " + r.S + ")", Sort: SStr, GoT: f.typeOf(call)}}
	})
	reg("(reflect.Value).IsValid", "", func(f *FuncCtx, st *State, call *ast.CallExpr, _ ast.Expr, r *Term) []Term {
		use(f, "reflect.Value.IsValid is Kind != Invalid")
		return []Term{{S: "(not (= (rv_kind " + r.S + ") 0))", Sort: SBool, GoT: f.typeOf(call)}}
	})
	reg("(reflect.Value).Interface", "", func(f *FuncCtx, st *State, call *ast.CallExpr, _ ast.Expr, r *Term) []Term {
		use(f, "reflect.Value.Interface boxes the payload with the Value's dynamic type; panics on the zero Value (unexported-field case not modelled)")
		f.panicIf(st, "(= (rv_kind "+r.S+") 0)", f.site("reflect.Interface"))
		b := f.fresh("iface", SInt)
		f.declareFun("box_Time", []string{STime}, SInt)
		f.declareFun("unbox_Time", []string{SInt}, STime)
		st.assume("(= (dyntype " + b + ") (rv_typ " + r.S + "))")
		st.assume("(= (unbox_Time " + b + ") (rv_tm " + r.S + "))")
		st.assume("(=> (or (= (rv_kind " + r.S + ") 25) (= (rv_kind " + r.S + ") 24) " + kindIn(r.S, 1, 14) + ") (not (= " + b + " 0)))")
		return []Term{{S: b, Sort: SInt, GoT: f.typeOf(call)}}
	})
	reg("(reflect.Value).Elem", "", func(f *FuncCtx, st *State, call *ast.CallExpr, _ ast.Expr, r *Term) []Term {
		use(f, "reflect.Value.Elem: rv_elem(v) for Kind Pointer/Interface (zero Value when nil); the element of a pointer is addressable and settable; panics for other kinds")
		f.panicIf(st, "(not (or (= (rv_kind "+r.S+") 22) (= (rv_kind "+r.S+") 20)))", f.site("reflect.Elem"))
		st.assume("(=> (= (rv_kind " + r.S + ") 22) (and (rv_canset (rv_elem " + r.S + ")) (rv_canaddr (rv_elem " + r.S + "))))")
		return []Term{{S: "(rv_elem " + r.S + ")", Sort: SRV, GoT: f.typeOf(call)}}
	})
	reg("(reflect.Value).IsNil", "", func(f *FuncCtx, st *State, call *ast.CallExpr, _ ast.Expr, r *Term) []Term {
		use(f, "reflect.Value.IsNil: panics unless Kind is Chan/Func/Interface/Map/Pointer/Slice/UnsafePointer")
		k := "(rv_kind " + r.S + ")"
		f.panicIf(st, "(not (or (= "+k+" 18) (= "+k+" 19) (= "+k+" 20) (= "+k+" 21) (= "+k+" 22) (= "+k+" 23) (= "+k+" 26)))", f.site("reflect.IsNil"))
		return []Term{{S: "(rv_isnil " + r.S + ")", Sort: SBool, GoT: f.typeOf(call)}}
	})
	reg("(reflect.Value).CanSet", "", func(f *FuncCtx, st *State, call *ast.CallExpr, _ ast.Expr, r *Term) []Term {
		return []Term{{S: "(rv_canset " + r.S + ")", Sort: SBool, GoT: f.typeOf(call)}}
	})
	reg("(reflect.Value).CanAddr", "", func(f *FuncCtx, st *State, call *ast.CallExpr, _ ast.Expr, r *Term) []Term {
		return []Term{{S: "(rv_canaddr " + r.S + ")", Sort: SBool, GoT: f.typeOf(call)}}
	})
	// Setters write exactly the addressed location: ghost map $loc : Int(location id) -> RV
	setter := func(name string, lo, hi int, payload func(f *FuncCtx, r string, v Term) string) {
		reg("(reflect.Value)."+name, "", func(f *FuncCtx, st *State, call *ast.CallExpr, _ ast.Expr, r *Term) []Term {
			use(f, "reflect.Value.Set*: panics unless CanSet and the kind matches; writes exactly the addressed location rv_id(v) (ghost store $loc) and nothing else; integer/float setters truncate to the destination width")
			v := arg(f, st, call, 0)
			f.panicIf(st, "(not (rv_canset "+r.S+"))", f.site("reflect."+name+".canset"))
			if lo > 0 {
				f.panicIf(st, "(not "+kindIn(r.S, lo, hi)+")", f.site("reflect."+name+".kind"))
			} else {
				f.panicIf(st, "(not (rv_assignable "+r.S+" "+v.S+"))", f.site("reflect."+name+".assignable"))
			}
			cur := f.ghostTerm(st, "$loc")
			nv := payload(f, r.S, v)
			st.ghost["$loc"] = Term{S: "(store " + cur.S + " (rv_id " + r.S + ") " + nv + ")", Sort: cur.Sort}
			return nil
		})
	}
	setter("SetInt", 2, 6, func(f *FuncCtx, r string, v Term) string {
		return "(rv_with_bits " + r + " (trunc_signed (rv_kind " + r + ") " + v.S + "))"
	})
	setter("SetUint", 7, 12, func(f *FuncCtx, r string, v Term) string {
		return "(rv_with_bits " + r + " (trunc_unsigned (rv_kind " + r + ") " + v.S + "))"
	})
	setter("SetFloat", 13, 14, func(f *FuncCtx, r string, v Term) string {
		return "(rv_with_f " + r + " (ite (= (rv_kind " + r + ") 13) ((_ to_fp 11 53) RNE ((_ to_fp 8 24) RNE " + v.S + ")) " + v.S + "))"
	})
	setter("SetString", 24, 24, func(f *FuncCtx, r string, v Term) string { return "(rv_with_s " + r + " " + v.S + ")" })
	setter("SetBool", 1, 1, func(f *FuncCtx, r string, v Term) string { return "(rv_with_b " + r + " " + v.S + ")" })
	setter("Set", 0, 0, func(f *FuncCtx, r string, v Term) string { return "(rv_assign " + r + " " + v.S + ")" })

	// ---- fmt ----
	reg("fmt.Errorf", "", func(f *FuncCtx, st *State, call *ast.CallExpr, _ ast.Expr, _ *Term) []Term {
		use(f, "fmt.Errorf returns a fresh non-nil error that mentions every string/error operand; %w operands are wrapped (err_root preserved)")
		e := f.fresh("err", SInt)
		st.assume("(not (= " + e + " 0))")
		format := ""
		if tv, ok := f.tinfo().Types[call.Args[0]]; ok && tv.Value != nil && tv.Value.Kind() == constant.String {
			format = constant.StringVal(tv.Value)
		}
		verbs := fmtVerbs(format)
		wrapped := false
		for i, a := range call.Args[1:] {
			v := f.expr(st, a)
			verb := byte('v')
			if i < len(verbs) {
				verb = verbs[i]
			}
			if v.Sort == SStr {
				st.assume("(err_mentions " + e + " " + v.S + ")")
			}
			if verb == 'w' && v.Sort == SInt {
				st.assume("(= (err_root " + e + ") (err_root " + v.S + "))")
				wrapped = true
			}
		}
		if !wrapped {
			st.assume("(= (err_root " + e + ") " + e + ")")
		}
		st.assume("(= (dyntype " + e + ") (- 1))")
		return []Term{{S: e, Sort: SInt, GoT: f.typeOf(call)}}
	})
	reg("errors.New", "", func(f *FuncCtx, st *State, call *ast.CallExpr, _ ast.Expr, _ *Term) []Term {
		use(f, "errors.New returns a fresh non-nil error")
		f.expr(st, call.Args[0])
		e := f.fresh("err", SInt)
		st.assume("(not (= " + e + " 0))")
		st.assume("(= (err_root " + e + ") " + e + ")")
		return []Term{{S: e, Sort: SInt, GoT: f.typeOf(call)}}
	})
	reg("fmt.Sprintf", "", func(f *FuncCtx, st *State, call *ast.CallExpr, _ ast.Expr, _ *Term) []Term {
		use(f, "fmt.Sprintf with a literal format is the concatenation of its literal pieces and one per-verb formatter applied to each operand in order (%s on a string is the identity)")
		tv, ok := f.tinfo().Types[call.Args[0]]
		if !ok || tv.Value == nil {
			for _, a := range call.Args {
				f.expr(st, a)
			}
			return []Term{f.havocVal(st, "sprintf", f.typeOf(call))}
		}
		format := constant.StringVal(tv.Value)
		pieces := fmtPieces(format)
		var parts []string
		ai := 1
		for _, p := range pieces {
			if !p.verb {
				if p.text != "" {
					parts = append(parts, f.w.strLit(p.text))
				}
				continue
			}
			if ai >= len(call.Args) {
				unsup("Sprintf: missing operand at %s", f.pos(call))
			}
			v := f.expr(st, call.Args[ai])
			ai++
			parts = append(parts, fmtVerb(f, p.text, v))
		}
		if len(parts) == 0 {
			return []Term{{S: f.w.strLit(""), Sort: SStr, GoT: f.typeOf(call)}}
		}
		s := parts[len(parts)-1]
		for i := len(parts) - 2; i >= 0; i-- {
			s = strCat(parts[i], s)
		}
		return []Term{{S: s, Sort: SStr, GoT: f.typeOf(call)}}
	})
	reg("strconv.FormatFloat", "", func(f *FuncCtx, st *State, call *ast.CallExpr, _ ast.Expr, _ *Term) []Term {
		use(f, "strconv.FormatFloat(x, 'g', -1, 64) is the per-value formatter fmt_g_F64 (injective on non-NaN values); other formats are opaque")
		x := f.expr(st, call.Args[0])
		fmtc, okf := f.tinfo().Types[call.Args[1]]
		prec, okp := f.tinfo().Types[call.Args[2]]
		// the per-value formatters below are the 64-bit ones: any other bitSize (the value is rounded to float32 first) is opaque
		if bs, okb := f.tinfo().Types[call.Args[3]]; !okb || bs.Value == nil || bs.Value.ExactString() != "64" {
			okf = false
		}
		if okf && okp && fmtc.Value != nil && prec.Value != nil && fmtc.Value.ExactString() == "103" && prec.Value.ExactString() == "-1" {
			return []Term{{S: "(fmt_g_F64 " + x.S + ")", Sort: SStr, GoT: f.typeOf(call)}}
		}
		if okf && okp && fmtc.Value != nil && prec.Value != nil && fmtc.Value.ExactString() == "102" && prec.Value.ExactString() == "-1" {
			f.declareFun("fmt_fs_F64", []string{SF64}, SStr)
			return []Term{{S: "(fmt_fs_F64 " + x.S + ")", Sort: SStr, GoT: f.typeOf(call)}}
		}
		return []Term{f.havocVal(st, "fmtfloat", f.typeOf(call))}
	})
	reg("strconv.Quote", "", func(f *FuncCtx, st *State, call *ast.CallExpr, _ ast.Expr, _ *Term) []Term {
		use(f, "strconv.Quote(s) is the %q formatter fmt_q_GoStr (injective, self-delimiting: T-FMT)")
		x := f.expr(st, call.Args[0])
		f.declareFun("fmt_q_GoStr", []string{SStr}, SStr)
		return []Term{{S: "(fmt_q_GoStr " + x.S + ")", Sort: SStr, GoT: f.typeOf(call)}}
	})
	reg("strconv.Itoa", "", func(f *FuncCtx, st *State, call *ast.CallExpr, _ ast.Expr, _ *Term) []Term {
		use(f, "strconv.Itoa(i) is the uninterpreted decimal formatter fmt_itoa")
		x := f.expr(st, call.Args[0])
		if x.Sort != SInt {
			return []Term{f.havocVal(st, "itoa", f.typeOf(call))}
		}
		f.declareFun("fmt_itoa", []string{SInt}, SStr)
		return []Term{{S: "(fmt_itoa " + x.S + ")", Sort: SStr, GoT: f.typeOf(call)}}
	})
	reg("fmt.Sprint", "", func(f *FuncCtx, st *State, call *ast.CallExpr, _ ast.Expr, _ *Term) []Term {
		use(f, "fmt.Sprint(x) of a single float64 / string is the uninterpreted formatter fmt_v_F64 / the string itself; other uses are opaque")
		if len(call.Args) == 1 && !call.Ellipsis.IsValid() {
			x := f.expr(st, call.Args[0])
			switch x.Sort {
			case SF64:
				f.declareFun("fmt_v_F64", []string{SF64}, SStr)
				return []Term{{S: "(fmt_v_F64 " + x.S + ")", Sort: SStr, GoT: f.typeOf(call)}}
			case SStr:
				return []Term{{S: x.S, Sort: SStr, GoT: f.typeOf(call)}}
			}
		} else {
			for _, a := range call.Args {
				f.expr(st, a)
			}
		}
		return []Term{f.havocVal(st, "sprint", f.typeOf(call))}
	})
	reg("strings.Join", "", func(f *FuncCtx, st *State, call *ast.CallExpr, _ ast.Expr, _ *Term) []Term {
		use(f, "strings.Join(a, sep) is the uninterpreted str_join (axioms in trusted/strings.spec: it depends only on the elements and the separator; 0/1/2 elements unfold)")
		a, sep := f.expr(st, call.Args[0]), f.expr(st, call.Args[1])
		f.declareFun("str_join", []string{a.Sort, SStr}, SStr)
		return []Term{{S: "(str_join " + a.S + " " + sep.S + ")", Sort: SStr, GoT: f.typeOf(call)}}
	})
	// ---- strings.Builder (local variable receiver) ----
	sb := func(name string, h func(f *FuncCtx, st *State, call *ast.CallExpr, cur Term, set func(Term)) []Term) {
		intrinsics["(*strings.Builder)."+name] = &intrinsic{lvalueRecv: true, fn: func(f *FuncCtx, st *State, call *ast.CallExpr, recvE ast.Expr, _ *Term) []Term {
			use(f, "strings.Builder is the string it has accumulated; WriteString appends, String returns it")
			cur := f.expr(st, recvE)
			return h(f, st, call, cur, func(t Term) { f.assignTo(st, recvE, t) })
		}}
	}
	sb("WriteString", func(f *FuncCtx, st *State, call *ast.CallExpr, cur Term, set func(Term)) []Term {
		v := f.expr(st, call.Args[0])
		set(Term{S: strCat(cur.S, v.S), Sort: SStr, GoT: cur.GoT})
		return []Term{{S: "(str_len " + v.S + ")", Sort: SInt}, {S: "0", Sort: SInt}}
	})
	sb("String", func(f *FuncCtx, st *State, call *ast.CallExpr, cur Term, set func(Term)) []Term {
		return []Term{{S: cur.S, Sort: SStr, GoT: f.typeOf(call)}}
	})
	// ---- sync.Mutex (A-SEQ: single goroutine; lock operations have no effect on verified state) ----
	for _, m := range []string{"Lock", "Unlock"} {
		intrinsics["(*sync.Mutex)."+m] = &intrinsic{lvalueRecv: true, fn: func(f *FuncCtx, st *State, call *ast.CallExpr, recvE ast.Expr, _ *Term) []Term {
			use(f, "sync.Mutex Lock/Unlock: no effect on verified state (A-SEQ, no thread model)")
			return nil
		}}
	}
	// ---- encoding/binary.LittleEndian (byte contents are not modelled) ----
	intrinsics["(encoding/binary.littleEndian).Uint64"] = &intrinsic{lvalueRecv: true, fn: func(f *FuncCtx, st *State, call *ast.CallExpr, _ ast.Expr, _ *Term) []Term {
		use(f, "binary.LittleEndian.Uint64(b): an arbitrary uint64 (byte contents are not modelled); panics if len(b) < 8")
		b := f.expr(st, call.Args[0])
		f.panicIf(st, "(< (len_"+b.Sort+" "+b.S+") 8)", f.site("binary.Uint64"))
		r := f.havocVal(st, "u64", f.typeOf(call))
		st.assume("(<= " + r.S + " 18446744073709551615)")
		return []Term{r}
	}}
	intrinsics["(encoding/binary.littleEndian).PutUint64"] = &intrinsic{lvalueRecv: true, fn: func(f *FuncCtx, st *State, call *ast.CallExpr, _ ast.Expr, _ *Term) []Term {
		use(f, "binary.LittleEndian.PutUint64(b, v): byte contents are not modelled; panics if len(b) < 8")
		b := f.expr(st, call.Args[0])
		f.expr(st, call.Args[1])
		f.panicIf(st, "(< (len_"+b.Sort+" "+b.S+") 8)", f.site("binary.PutUint64"))
		return nil
	}}
	// ---- sort.SliceStable / sort.Slice (T-SORT) ----
	for _, name := range []string{"sort.SliceStable", "sort.Slice"} {
		name := name
		reg(name, "", func(f *FuncCtx, st *State, call *ast.CallExpr, _ ast.Expr, _ *Term) []Term {
			use(f, name+"(s, less): afterwards s is a permutation of its old value with no inversion w.r.t. less, PROVIDED less is a strict weak order (obligation generated on the closure); less is a single-return closure")
			fl, ok := ast.Unparen(call.Args[1]).(*ast.FuncLit)
			if !ok || len(fl.Body.List) != 1 {
				unsup("sort with a non-literal or multi-statement less at %s", f.pos(call))
			}
			ret, ok := fl.Body.List[0].(*ast.ReturnStmt)
			if !ok || len(ret.Results) != 1 {
				unsup("sort: less must be a single return at %s", f.pos(call))
			}
			var pvars []*types.Var
			for _, fld := range fl.Type.Params.List {
				for _, n := range fld.Names {
					pvars = append(pvars, f.tinfo().Defs[n].(*types.Var))
				}
			}
			if len(pvars) != 2 {
				unsup("sort: less must take two indices")
			}
			old := f.expr(st, call.Args[0])
			ss := old.Sort
			n := "(len_" + ss + " " + old.S + ")"
			// L(a, b) on a given slice value
			nDefs := 0
			less := func(base *State, sl Term, a, b string) string {
				s2 := base.clone()
				f.assignTo(s2, call.Args[0], sl)
				s2.vars[pvars[0]] = Term{S: a, Sort: SInt, GoT: pvars[0].Type()}
				s2.vars[pvars[1]] = Term{S: b, Sort: SInt, GoT: pvars[1].Type()}
				savedPend, savedTrack := f.pend, f.track
				f.track = false
				t := f.expr(s2, ret.Results[0])
				f.pend, f.track = savedPend, savedTrack
				// definitions introduced while evaluating live in s2.pc beyond base.pc: inline them as a conjunction context
				extra := s2.pc[len(base.pc):]
				if len(extra) > 0 {
					// keep only equalities that define fresh symbols; they are needed to interpret t
					for _, e := range extra {
						if strings.HasPrefix(e, "(= v_") {
							base.assume(e)
							nDefs++
						}
					}
				}
				return t.S
			}
			// obligations: strict weak order on arbitrary valid indices of the current slice
			a, b, c := f.fresh("swo_a", SInt), f.fresh("swo_b", SInt), f.fresh("swo_c", SInt)
			chk := st.clone()
			for _, v := range []string{a, b, c} {
				chk.assume("(and (<= 0 " + v + ") (< " + v + " " + n + "))")
			}
			laa := less(chk, old, a, a)
			lab, lba := less(chk, old, a, b), less(chk, old, b, a)
			lbc, lcb := less(chk, old, b, c), less(chk, old, c, b)
			lac, lca := less(chk, old, a, c), less(chk, old, c, a)
			site := f.site("call:" + strings.TrimPrefix(name, "sort."))
			f.oblige(chk, "(not "+laa+")", "less-irreflexive@"+site, "pre", "T-SORT premise: less is irreflexive", nil, f.pos(call))
			f.oblige(chk, "(=> (and "+lab+" "+lbc+") "+lac+")", "less-transitive@"+site, "pre", "T-SORT premise: less is transitive", nil, f.pos(call))
			f.oblige(chk, "(=> (and (not "+lab+") (not "+lba+") (not "+lbc+") (not "+lcb+")) (and (not "+lac+") (not "+lca+")))", "less-incomparability-transitive@"+site, "pre", "T-SORT premise: incomparability is transitive (strict weak order)", nil, f.pos(call))
			// result: permutation without inversions
			res := Term{S: f.fresh("sorted", ss), Sort: ss, GoT: old.GoT}
			perm := f.fresh("perm", "(Array Int Int)")
			inv := f.fresh("perminv", "(Array Int Int)")
			st.assume("(= (len_" + ss + " " + res.S + ") " + n + ")")
			st.assume("(forall ((q!i Int)) (! (=> (and (<= 0 q!i) (< q!i " + n + ")) (and (<= 0 (select " + perm + " q!i)) (< (select " + perm + " q!i) " + n + ") (= (select " + inv + " (select " + perm + " q!i)) q!i) (= (select (arr_" + ss + " " + res.S + ") q!i) (select (arr_" + ss + " " + old.S + ") (select " + perm + " q!i))))) :pattern ((select (arr_" + ss + " " + res.S + ") q!i)) :pattern ((select " + perm + " q!i))))")
			st.assume("(forall ((q!i Int)) (! (=> (and (<= 0 q!i) (< q!i " + n + ")) (and (<= 0 (select " + inv + " q!i)) (< (select " + inv + " q!i) " + n + ") (= (select " + perm + " (select " + inv + " q!i)) q!i))) :pattern ((select " + inv + " q!i)) :pattern ((select (arr_" + ss + " " + old.S + ") q!i))))")
			f.assignTo(st, call.Args[0], res)
			qi, qj := "q!si", "q!sj"
			tmp := st.clone()
			nDefs = 0
			lji := less(tmp, res, qj, qi)
			if nDefs != 0 {
				unsup("sort: less is too complex to quantify over at %s", f.pos(call))
			}
			st.assume("(forall ((" + qi + " Int) (" + qj + " Int)) (! (=> (and (<= 0 " + qi + ") (< " + qi + " " + qj + ") (< " + qj + " " + n + ")) (not " + lji + ")) :pattern ((select (arr_" + ss + " " + res.S + ") " + qi + ") (select (arr_" + ss + " " + res.S + ") " + qj + "))))")
			return nil
		})
	}
	// ---- time ----
	tm := func(name, fn string) {
		reg("(time.Time)."+name, "", func(f *FuncCtx, st *State, call *ast.CallExpr, _ ast.Expr, r *Term) []Term {
			use(f, "time.Time."+name+" transcribed bit-exactly from Go's time package (prelude "+fn+")")
			a := arg(f, st, call, 0)
			return []Term{{S: "(" + fn + " " + r.S + " " + a.S + ")", Sort: SBool, GoT: f.typeOf(call)}}
		})
	}
	reg("(time.Time).Format", "", func(f *FuncCtx, st *State, call *ast.CallExpr, _ ast.Expr, r *Term) []Term {
		use(f, "time.Time.Format is the uninterpreted time_format(t, layout)")
		a := arg(f, st, call, 0)
		return []Term{{S: "(time_format " + r.S + " " + a.S + ")", Sort: SStr, GoT: f.typeOf(call)}}
	})
	tm("After", "time_after")
	tm("Before", "time_before")
	tm("Equal", "time_equal")
	reg("time.Now", "", func(f *FuncCtx, st *State, call *ast.CallExpr, _ ast.Expr, _ *Term) []Term {
		return []Term{{S: f.fresh("now", STime), Sort: STime, GoT: f.typeOf(call)}}
	})
	// ---- strings ----
	str2 := func(name, fn string, rs Sort) {
		reg("strings."+name, "", func(f *FuncCtx, st *State, call *ast.CallExpr, _ ast.Expr, _ *Term) []Term {
			use(f, "strings."+name+" is the uninterpreted "+fn+" (axioms in trusted/prelude)")
			a, b := arg(f, st, call, 0), arg(f, st, call, 1)
			return []Term{{S: "(" + fn + " " + a.S + " " + b.S + ")", Sort: rs, GoT: f.typeOf(call)}}
		})
	}
	str2("Contains", "str_contains", SBool)
	str2("HasPrefix", "str_hasprefix", SBool)
	str2("HasSuffix", "str_hassuffix", SBool)
	reg("strings.ToLower", "", func(f *FuncCtx, st *State, call *ast.CallExpr, _ ast.Expr, _ *Term) []Term {
		a := arg(f, st, call, 0)
		return []Term{{S: "(str_lower " + a.S + ")", Sort: SStr, GoT: f.typeOf(call)}}
	})
	reg("strings.ToUpper", "", func(f *FuncCtx, st *State, call *ast.CallExpr, _ ast.Expr, _ *Term) []Term {
		a := arg(f, st, call, 0)
		return []Term{{S: "(str_upper " + a.S + ")", Sort: SStr, GoT: f.typeOf(call)}}
	})
	reg("strings.TrimSpace", "", func(f *FuncCtx, st *State, call *ast.CallExpr, _ ast.Expr, _ *Term) []Term {
		a := arg(f, st, call, 0)
		f.declareFun("str_trim", []string{SStr}, SStr)
		return []Term{{S: "(str_trim " + a.S + ")", Sort: SStr, GoT: f.typeOf(call)}}
	})
}

type fpiece struct {
	verb bool
	text string
}

func fmtPieces(format string) []fpiece {
	var out []fpiece
	lit := ""
	for i := 0; i < len(format); i++ {
		if format[i] != '%' {
			lit += string(format[i])
			continue
		}
		if i+1 < len(format) && format[i+1] == '%' {
			lit += "%"
			i++
			continue
		}
		j := i + 1
		for j < len(format) && strings.ContainsRune("+-# 0123456789.", rune(format[j])) {
			j++
		}
		if j >= len(format) {
			lit += format[i:]
			break
		}
		out = append(out, fpiece{false, lit})
		lit = ""
		out = append(out, fpiece{true, format[i+1 : j+1]})
		i = j
	}
	out = append(out, fpiece{false, lit})
	return out
}

func fmtVerbs(format string) []byte {
	var vs []byte
	for _, p := range fmtPieces(format) {
		if p.verb {
			vs = append(vs, p.text[len(p.text)-1])
		}
	}
	return vs
}

func fmtVerb(f *FuncCtx, verb string, v Term) string {
	if (verb == "s" || verb == "v") && v.Sort == SStr {
		return v.S
	}
	if verb == "q" && v.Sort == SStr {
		return "(fmt_q_GoStr " + v.S + ")"
	}
	tn := mangle(v.Sort)
	if v.GoT != nil {
		if b, ok := types.Unalias(v.GoT).Underlying().(*types.Basic); ok {
			if bits, signed, isInt := intInfo(b); isInt {
				_ = bits
				tn = "int"
				if !signed {
					tn = "uint"
				}
			}
		}
	}
	name := "fmt_" + strings.NewReplacer(".", "p", "+", "P", "-", "M", "#", "H", " ", "S").Replace(verb) + "_" + tn
	f.declareFun(name, []string{v.Sort}, SStr)
	return "(" + name + " " + v.S + ")"
}

package main

import (
	"fmt"
	"go/ast"
	"go/types"
	"sort"
	"strings"
)

type State struct {
	pc      []string
	vars    map[*types.Var]Term
	heap    map[string]string
	ghost   map[string]Term
	ret     []Term
	site    string
	pending map[string][]string // heap -> allocation maps of calls that may have written FRESH objects' fields (lazy frame)
	ndefer  int                 // deferred calls registered when this exit/panic edge was taken
}

func newState() *State {
	return &State{vars: map[*types.Var]Term{}, heap: map[string]string{}, ghost: map[string]Term{}}
}

func (s *State) clone() *State {
	n := &State{pc: s.pc[:len(s.pc):len(s.pc)], vars: make(map[*types.Var]Term, len(s.vars)),
		heap: make(map[string]string, len(s.heap)), ghost: make(map[string]Term, len(s.ghost)), site: s.site, ndefer: s.ndefer}
	for k, v := range s.vars {
		n.vars[k] = v
	}
	for k, v := range s.heap {
		n.heap[k] = v
	}
	for k, v := range s.ghost {
		n.ghost[k] = v
	}
	n.ret = append([]Term(nil), s.ret...)
	if len(s.pending) > 0 {
		n.pending = make(map[string][]string, len(s.pending))
		for k, v := range s.pending {
			n.pending[k] = append([]string(nil), v...)
		}
	}
	return n
}

func (s *State) assume(c string) {
	if c == "true" {
		return
	}
	s.pc = append(s.pc, c)
}

type Jump struct {
	label string
	st    *State
}

type Flow struct {
	Normal    *State
	Returns   []*State
	Breaks    []Jump
	Continues []Jump
	Panics    []*State
}

func (fl *Flow) absorb(o *Flow) {
	fl.Returns = append(fl.Returns, o.Returns...)
	fl.Breaks = append(fl.Breaks, o.Breaks...)
	fl.Continues = append(fl.Continues, o.Continues...)
	fl.Panics = append(fl.Panics, o.Panics...)
}

type Obligation struct {
	ID       string
	Func     string
	Kind     string // ensures pre inv-entry inv-preserved nopanic variant frame lemma cover
	Props    []string
	Clause   string
	PC       []string
	Goal     string
	Site     string
	Decls    []string
	Bounded  int
	Res      *SolverResult
	Query    string
	Expect   string // "unsat" normally; "sat" for cover/vacuity queries
	FuncHash string
	Axioms   []string // on-demand axioms to include
}

type FuncCtx struct {
	w            *World
	info         *FuncInfo
	con          *Contract
	key          string
	bv           bool
	decls        []string
	declSet      map[string]bool
	nfresh       int
	obls         []*Obligation
	usedSpec     map[string]bool
	pend         []*State
	track        bool // track panic edges
	names0       map[string]Term
	initSt       *State
	recvVar      *types.Var
	params       []*types.Var
	results      []*types.Var
	loopOrd      map[ast.Node]int
	retOrd       map[ast.Node]int
	siteCount    map[string]int
	deferred     []ast.Expr // deferred calls in registration order
	recoverT     string
	localsByName map[string][]*types.Var
	usedCons     map[string]bool
	assumed      map[string]bool
	useAlloc     bool
	curProp      string
	bounded      int
	labelOf      map[ast.Stmt]string
	noHeap       bool
	inlineDepth  int
	impure       []string
	loopGhosts   map[int]map[string]Term // ghosts ($i $n $keys $pos $coll $dom) of enclosing/earlier loops, by loop ordinal
	curSpec      string
}

func (f *FuncCtx) fresh(hint string, sort Sort) string {
	f.nfresh++
	hint = strings.Map(func(r rune) rune {
		if r == '_' || r == '.' || (r >= '0' && r <= '9') || (r >= 'a' && r <= 'z') || (r >= 'A' && r <= 'Z') {
			return r
		}
		return '_'
	}, hint)
	name := fmt.Sprintf("v_%s!%d", hint, f.nfresh)
	f.declare(name, sort)
	return name
}

func (f *FuncCtx) declare(name string, sort Sort) {
	if f.declSet[name] {
		return
	}
	f.declSet[name] = true
	f.decls = append(f.decls, "(declare-const "+name+" "+sort+")")
}

func (f *FuncCtx) heapTerm(st *State, name, sort string) string {
	if f.noHeap {
		cfail("%s reads the heap (%s); use a macro func instead of a pure func", f.curSpec, name)
	}
	f.w.ensureHeap(name, sort)
	if len(st.pending[name]) > 0 {
		f.materialize(st, name, sort)
	}
	if v, ok := st.heap[name]; ok {
		return v
	}
	init := name + "!0"
	f.declare(init, sort)
	return init
}

// materialize turns the pending "only fresh objects were written" marks of a heap array into havoc + frame facts.
func (f *FuncCtx) materialize(st *State, name, sort string) {
	pend := st.pending[name]
	delete(st.pending, name)
	for _, mark := range pend {
		guard, al := splitMark(mark)
		var before string
		if v, ok := st.heap[name]; ok {
			before = v
		} else {
			before = name + "!0"
			f.declare(before, sort)
		}
		after := f.fresh("fv_"+name, sort)
		st.heap[name] = after
		cond := "(or (select " + al + " q!p) (= q!p 0))"
		if guard != "" {
			cond = "(or (not " + guard + ") (select " + al + " q!p) (= q!p 0))"
		}
		st.assume("(forall ((q!p Int)) (! (=> " + cond + " (= (select " + after + " q!p) (select " + before + " q!p))) :pattern ((select " + after + " q!p))))")
	}
}

func splitMark(m string) (guard, al string) {
	if i := strings.Index(m, "\x00"); i >= 0 {
		return m[:i], m[i+1:]
	}
	return "", m
}

func (f *FuncCtx) ghostTerm(st *State, name string) Term {
	if t, ok := st.ghost[name]; ok {
		return t
	}
	g, ok := f.w.ghosts[name]
	if !ok {
		cfail("undeclared ghost variable %s", name)
	}
	s, gt := f.w.specSort(g.PkgName, g.Type)
	init := "g_" + strings.TrimPrefix(name, "$") + "!0"
	f.declare(init, s)
	return Term{S: init, Sort: s, GoT: gt}
}

func (f *FuncCtx) readGlobal(st *State, v *types.Var) Term {
	f.impure = append(f.impure, "reads global "+v.Name())
	name := "G_" + v.Pkg().Name() + "_" + v.Name()
	s := f.w.sortOf(v.Type(), f.bv)
	return Term{S: f.heapTerm(st, name, s), Sort: s, GoT: v.Type()}
}

// define introduces a fresh constant equal to t when t is large, to keep terms small.
func (f *FuncCtx) define(st *State, hint string, t Term) Term {
	if len(t.S) < 80 || (t.Sort == SStr && (len(t.S) < 4000 || (f.con != nil && f.con.Opts["strite"] != "" && len(t.S) < 400000))) {
		return t // strings stay inline: concatenations are normalised syntactically (right-nested)
	}
	c := f.fresh(hint, t.Sort)
	st.assume("(= " + c + " " + t.S + ")")
	return Term{S: c, Sort: t.Sort, GoT: t.GoT}
}

func conj(cs []string) string {
	switch len(cs) {
	case 0:
		return "true"
	case 1:
		return cs[0]
	}
	return "(and " + strings.Join(cs, " ") + ")"
}

// merge joins states at a control-flow join. Sound for arbitrary (not necessarily exclusive) path conditions:
// the equations defining merged values live inside the disjuncts.
func (f *FuncCtx) merge(states []*State) *State {
	var ss []*State
	for _, s := range states {
		if s != nil {
			ss = append(ss, s)
		}
	}
	if len(ss) == 0 {
		return nil
	}
	if len(ss) == 1 {
		return ss[0]
	}
	// common prefix
	L := len(ss[0].pc)
	for _, s := range ss[1:] {
		n := 0
		for n < L && n < len(s.pc) && s.pc[n] == ss[0].pc[n] {
			n++
		}
		L = n
	}
	rests := make([][]string, len(ss))
	var sels []string
	for i, s := range ss {
		rests[i] = append([]string(nil), s.pc[L:]...)
		sels = append(sels, f.fresh("join", SBool))
	}
	out := newState()
	out.pc = append([]string(nil), ss[0].pc[:L]...)
	// vars present in all states
	var vkeys []*types.Var
	for k := range ss[0].vars {
		all := true
		for _, s := range ss[1:] {
			if _, ok := s.vars[k]; !ok {
				all = false
				break
			}
		}
		if all {
			vkeys = append(vkeys, k)
		}
	}
	sort.Slice(vkeys, func(i, j int) bool {
		if vkeys[i].Pos() != vkeys[j].Pos() {
			return vkeys[i].Pos() < vkeys[j].Pos()
		}
		return vkeys[i].Name() < vkeys[j].Name()
	})
	for _, k := range vkeys {
		same := true
		for _, s := range ss[1:] {
			if s.vars[k].S != ss[0].vars[k].S {
				same = false
				break
			}
		}
		if same {
			out.vars[k] = ss[0].vars[k]
			continue
		}
		t0 := ss[0].vars[k]
		if t0.Sort == SStr && f.con != nil && f.con.Opts["strite"] != "" {
			// strings built along several paths (strings.Builder): the merged value is the ite-chain over the join
			// selectors, so later concatenations can be pushed into the branches (strCat)
			v := ss[len(ss)-1].vars[k].S
			for i := len(ss) - 2; i >= 0; i-- {
				v = "(ite " + sels[i] + " " + ss[i].vars[k].S + " " + v + ")"
			}
			out.vars[k] = Term{S: v, Sort: t0.Sort, GoT: t0.GoT}
			continue
		}
		c := f.fresh("m_"+k.Name(), t0.Sort)
		for i, s := range ss {
			rests[i] = append(rests[i], "(= "+c+" "+s.vars[k].S+")")
		}
		out.vars[k] = Term{S: c, Sort: t0.Sort, GoT: t0.GoT}
	}
	// pending lazy frames: keep when identical in all states, otherwise materialize first
	pk := map[string]bool{}
	for _, s := range ss {
		for k := range s.pending {
			pk[k] = true
		}
	}
	var pkeys []string
	for k := range pk {
		pkeys = append(pkeys, k)
	}
	sort.Strings(pkeys)
	for _, k := range pkeys {
		// marks are adopted GUARDED by the selector of the branch they come from: on the other branches the heap is unchanged
		sameHeap := true
		for _, s := range ss[1:] {
			if s.heap[k] != ss[0].heap[k] {
				sameHeap = false
			}
		}
		if sameHeap {
			// common prefix of marks stays unguarded; the rest is guarded per branch
			cp := len(ss[0].pending[k])
			for _, s := range ss[1:] {
				n := 0
				for n < cp && n < len(s.pending[k]) && s.pending[k][n] == ss[0].pending[k][n] {
					n++
				}
				cp = n
			}
			var merged []string
			merged = append(merged, ss[0].pending[k][:cp]...)
			for i, s := range ss {
				for _, m := range s.pending[k][cp:] {
					g, al := splitMark(m)
					if g == "" {
						g = sels[i]
					} else {
						g = "(and " + sels[i] + " " + g + ")"
					}
					merged = append(merged, g+"\x00"+al)
				}
			}
			if out.pending == nil {
				out.pending = map[string][]string{}
			}
			out.pending[k] = merged
			for _, s := range ss {
				delete(s.pending, k)
			}
			continue
		}
		for i, s := range ss {
			n0 := len(s.pc)
			f.materialize(s, k, f.w.heapSorts[k])
			rests[i] = append(rests[i], s.pc[n0:]...)
		}
	}
	// heap: union of keys
	hk := map[string]bool{}
	for _, s := range ss {
		for k := range s.heap {
			hk[k] = true
		}
	}
	var hkeys []string
	for k := range hk {
		hkeys = append(hkeys, k)
	}
	sort.Strings(hkeys)
	for _, k := range hkeys {
		srt := f.w.heapSorts[k]
		v0 := f.heapTerm(ss[0], k, srt)
		same := true
		for _, s := range ss[1:] {
			if f.heapTerm(s, k, srt) != v0 {
				same = false
				break
			}
		}
		if same {
			out.heap[k] = v0
			continue
		}
		c := f.fresh("mh_"+k, srt)
		for i, s := range ss {
			rests[i] = append(rests[i], "(= "+c+" "+f.heapTerm(s, k, srt)+")")
		}
		out.heap[k] = c
	}
	gk := map[string]bool{}
	for _, s := range ss {
		for k := range s.ghost {
			gk[k] = true
		}
	}
	var gkeys []string
	for k := range gk {
		gkeys = append(gkeys, k)
	}
	sort.Strings(gkeys)
	for _, k := range gkeys {
		t0 := f.ghostTerm(ss[0], k)
		same := true
		for _, s := range ss[1:] {
			if f.ghostTerm(s, k).S != t0.S {
				same = false
				break
			}
		}
		if same {
			out.ghost[k] = t0
			continue
		}
		c := f.fresh("mg_"+strings.TrimPrefix(k, "$"), t0.Sort)
		for i, s := range ss {
			rests[i] = append(rests[i], "(= "+c+" "+f.ghostTerm(s, k).S+")")
		}
		out.ghost[k] = Term{S: c, Sort: t0.Sort, GoT: t0.GoT}
	}
	// selector encoding of the join: (or sel_1 .. sel_n) and (sel_i => A) for every fact A of branch i. Equivalent to the
	// disjunction of the branch conjunctions, but quantified facts stay at top level (solvers cope far better).
	for i, r := range rests {
		sel := sels[i]
		for _, a := range r {
			if strings.HasPrefix(a, "#tags:") {
				m := reTagged.FindStringSubmatch(a)
				out.assume(m[0] + "(=> " + sel + " " + a[len(m[0]):] + ")")
				continue
			}
			out.assume("(=> " + sel + " " + a + ")")
		}
	}
	out.assume("(or " + strings.Join(sels, " ") + ")")
	return out
}

func (f *FuncCtx) oblige(st *State, goal, id, kind, clause string, props []string, site string) {
	o := &Obligation{ID: f.key + "#" + id, Func: f.key, Kind: kind, Props: props, Clause: clause,
		PC: append([]string(nil), st.pc...), Goal: goal, Site: site, Expect: "unsat", Bounded: f.bounded}
	f.obls = append(f.obls, o)
}

func (f *FuncCtx) site(kind string) string {
	f.siteCount[kind]++
	return fmt.Sprintf("%s.%d", kind, f.siteCount[kind])
}

// panicIf forks a panic edge when cond holds and continues under !cond.
func (f *FuncCtx) panicIf(st *State, cond, site string) {
	if cond == "false" {
		return
	}
	if f.track {
		p := st.clone()
		p.assume(cond)
		p.site = site
		p.ndefer = len(f.deferred)
		f.pend = append(f.pend, p)
	}
	st.assume("(not " + cond + ")")
}

func (f *FuncCtx) panicFork(st *State, site string) {
	if f.track {
		p := st.clone()
		p.site = site
		p.ndefer = len(f.deferred)
		f.pend = append(f.pend, p)
	}
}

func (f *FuncCtx) pos(n ast.Node) string {
	p := f.w.fset.Position(n.Pos())
	return fmt.Sprintf("%s:%d", strings.TrimPrefix(p.Filename, f.w.repo+"/"), p.Line)
}

package main

import (
	"encoding/json"
	"flag"
	"fmt"
	"go/types"
	"os"
	"path/filepath"
	"regexp"
	"sort"
	"strconv"
	"strings"
	"sync/atomic"
	"time"
)

type KnownFinding struct {
	Property   string `json:"property"`
	Obligation string `json:"obligation"` // regexp over obligation ids
	Witness    string `json:"witness"`
	Status     string `json:"status"` // open | fixed
	Commit     string `json:"commit,omitempty"`
	Finding    string `json:"finding,omitempty"`
	// for findings shown by a search harness (obligation "harness:<run>"): regexp the harness's CONFIRMED line must match, so
	// that a different counterexample of the same harness is still reported
	WitnessMatch string `json:"witness_match,omitempty"`
}

type Baseline struct {
	Discharged map[string][]string `json:"discharged"` // property -> obligation ids expected to discharge
	// property -> obligation ids that EXISTED when the baseline was written but were not discharged (normally none): only these are
	// "unclaimed" when they stay undecided. An undecided obligation listed in neither map did not exist on the baseline tree - it
	// was created by the change under examination (a new call site, return point or touched frame) and counts as a violation
	Undecided map[string][]string `json:"undecided_at_baseline,omitempty"`
}

type PropRun struct {
	w        *World
	prop     string
	ctxs     map[string]*FuncCtx
	obls     []*Obligation
	funcs    []string
	errs     []string // functions that could not be processed
	assumed  map[string]bool
	relied   map[string]bool // contracts assumed (extern)
	loadSecs float64
}

func has(ss []string, s string) bool {
	for _, x := range ss {
		if x == s {
			return true
		}
	}
	return false
}

// generate builds all obligations serving a property.
func generate(w *World, prop string) *PropRun {
	pr := &PropRun{w: w, prop: prop, ctxs: map[string]*FuncCtx{}, assumed: map[string]bool{}, relied: map[string]bool{}}
	var work []string
	var ifacePairs [][2]string
	seen := map[string]bool{}
	for k, c := range w.contracts {
		if !c.Extern && has(c.Serves, prop) {
			work = append(work, k)
		}
	}
	sort.Strings(work)
	for len(work) > 0 {
		k := work[0]
		work = work[1:]
		if seen[k] {
			continue
		}
		seen[k] = true
		c := w.contracts[k]
		if c == nil || c.Extern {
			if c != nil {
				pr.relied[shortName(k)] = true
				if len(c.Implementers) > 0 {
					keys, errs := w.checkImplementers(k, c)
					pr.errs = append(pr.errs, errs...)
					work = append(work, keys...)
					for _, ik := range keys {
						ifacePairs = append(ifacePairs, [2]string{k, ik})
					}
				}
			}
			continue
		}
		if w.funcs[k] == nil {
			pr.errs = append(pr.errs, shortName(k)+": function under contract not found in the source (contract orphaned)")
			continue
		}
		f, err := w.verifyFunc(k)
		if err != nil {
			pr.errs = append(pr.errs, err.Error())
			continue
		}
		pr.funcs = append(pr.funcs, f.key)
		pr.ctxs[f.key] = f
		for _, o := range f.obls {
			if len(o.Props) == 0 || has(o.Props, prop) {
				pr.obls = append(pr.obls, o)
			}
		}
		for a := range f.assumed {
			pr.assumed[a] = true
		}
		var callees []string
		for ck := range f.usedCons {
			callees = append(callees, ck)
		}
		sort.Strings(callees)
		work = append(work, callees...)
	}
	// lemmas tagged with this property
	lf := w.newFuncCtx("<lemma>")
	lf.key = "lemma"
	pr.ctxs["lemma"] = lf
	for _, lm := range w.lemmas {
		if !has(lm.Props, prop) {
			continue
		}
		func() {
			defer func() {
				if r := recover(); r != nil {
					pr.errs = append(pr.errs, fmt.Sprintf("lemma %s: %v", lm.Label, r))
				}
			}()
			st := newState()
			env := &CEnv{f: lf, st: st, old: st, pkgName: lm.Pkg, bound: map[string]Term{}, names: map[string]Term{}}
			g := env.boolT(lm.Expr)
			lf.obls = append(lf.obls, &Obligation{ID: "lemma#" + lm.Label, Func: "lemma", Kind: "lemma", Props: lm.Props, Clause: lm.Text, Goal: g, Expect: "unsat"})
		}()
	}
	// (calls through an interface with an implementers clause are analysed by cases over the implementers - dispatchCall -
	// so each implementer's own precondition is an obligation at every call site)
	_ = ifacePairs
	pr.obls = append(pr.obls, lf.obls...)
	sort.Strings(pr.funcs)
	return pr
}

// ---------------- result cache ----------------

type cacheEntry struct {
	Verdict string  `json:"v"`
	Solver  string  `json:"s"`
	Seconds float64 `json:"t"`
	Model   string  `json:"m,omitempty"`
}

func cachePath(query string, tier string) string {
	return filepath.Join(verifDir, ".cache", tier, hashStr(query)+hashStr(query+"x")+".json")
}

func cacheGet(query, tier string) *SolverResult {
	if os.Getenv("GOVC_NOCACHE") != "" {
		return nil
	}
	b, err := os.ReadFile(cachePath(query, tier))
	if err != nil {
		return nil
	}
	var e cacheEntry
	if json.Unmarshal(b, &e) != nil {
		return nil
	}
	return &SolverResult{Verdict: e.Verdict, Solver: e.Solver + " (cached)", Seconds: e.Seconds, Model: e.Model}
}

func cachePut(query, tier string, r *SolverResult) {
	if (r.Verdict == "unknown" && !strings.HasSuffix(query, ";cover\n")) || os.Getenv("GOVC_NOCACHE") != "" {
		return
	}
	p := cachePath(query, tier)
	os.MkdirAll(filepath.Dir(p), 0o755)
	b, _ := json.Marshal(cacheEntry{r.Verdict, r.Solver, r.Seconds, r.Model})
	os.WriteFile(p, b, 0o644)
}

// ---------------- check ----------------

type Failure struct {
	O         *Obligation
	Kind      string // sat | undecided | orphaned
	Replay    string
	Confirmed bool
	Note      string
}

func loadKnown() []KnownFinding {
	var ks []KnownFinding
	b, err := os.ReadFile(filepath.Join(verifDir, "known_findings.json"))
	if err == nil {
		json.Unmarshal(b, &ks)
	}
	return ks
}

func loadBaseline() *Baseline {
	bl := &Baseline{Discharged: map[string][]string{}}
	b, err := os.ReadFile(filepath.Join(verifDir, "baseline_obligations.json"))
	if err == nil {
		json.Unmarshal(b, bl)
	}
	return bl
}

func runProp(w *World, prop, tier string, useCache bool) (*PropRun, float64) {
	pr := generate(w, prop)
	timeout := 10
	all := false
	if tier == "thorough" {
		timeout = 60
		all = true
	}
	for _, o := range pr.obls {
		o.Query = w.buildQuery(pr.ctxs[o.Func], o)
		if d := os.Getenv("GOVC_DUMPID"); d != "" && strings.Contains(o.ID, d) {
			os.WriteFile("/tmp/govc-checkdump-"+prop+".smt2", []byte(o.Query), 0o644)
		}
	}
	var todo []*Obligation
	for _, o := range pr.obls {
		if useCache {
			if r := cacheGet(o.Query, tier); r != nil {
				o.Res = r
				continue
			}
		}
		todo = append(todo, o)
	}
	t0 := time.Now()
	solveAllPrepared(todo, timeout, all)
	for _, o := range todo {
		if useCache {
			cachePut(o.Query, tier, o.Res)
		}
	}
	return pr, time.Since(t0).Seconds()
}

func cmdCheck(args []string) int {
	fs := flag.NewFlagSet("check", flag.ExitOnError)
	tier := fs.String("tier", "", "quick|thorough")
	noCanary := fs.Bool("no-canary", false, "skip canaries")
	writeBaseline := fs.Bool("write-baseline", false, "record discharged obligations as the baseline for this property")
	fs.Parse(args)
	if fs.NArg() < 1 {
		fmt.Fprintln(os.Stderr, "check <Cxx>")
		return 2
	}
	prop := fs.Arg(0)
	if *tier == "" {
		*tier = os.Getenv("VERIF_TIER")
	}
	if *tier != "thorough" {
		*tier = "quick"
	}
	seed, _ := strconv.Atoi(os.Getenv("VERIF_SEED"))
	t0 := time.Now()
	w, err := setupWorld(nil)
	if err != nil {
		// the tree does not load / type-check or a contract does not resolve: nothing can be decided
		fmt.Printf("govc: cannot load /repo with contracts: %v\n", err)
		replay := writeReplayFile(prop, "load", map[string]interface{}{"obligation": "load", "error": err.Error()})
		fmt.Printf("VIOLATION property=%s replay=%s obligation=<load> contract orphaned or tree does not type-check: %v no-failing-input-found\n", prop, replay, err)
		writeEvidence(prop, *tier, seed, nil, nil, nil, nil, time.Since(t0).Seconds(), 0, 1, nil)
		return 1
	}
	loadS := time.Since(t0).Seconds()
	pr, solveS := runProp(w, prop, *tier, true)
	pr.loadSecs = loadS
	known := loadKnown()
	bl := loadBaseline()
	inBaseline := map[string]bool{}
	if bl.Undecided != nil {
		if und, ok := bl.Undecided[prop]; ok {
			// everything not explicitly recorded as undecided-at-baseline is claimed
			undecidedAtBaseline = map[string]bool{}
			for _, id := range und {
				undecidedAtBaseline[id] = true
			}
		}
	}
	for _, id := range bl.Discharged[prop] {
		inBaseline[id] = true
	}
	var failures []*Failure
	var unclaimed []*Obligation
	discharged := 0
	claimed := 0
	retrySpent := 0.0
	var notAttempted []*Obligation
	for _, o := range pr.obls {
		if o.Expect == "sat" {
			if o.Res.Verdict == "unsat" {
				failures = append(failures, &Failure{O: o, Kind: "vacuous", Note: "vacuity guard: " + o.Clause + " is UNSATISFIABLE"})
			}
			continue
		}
		switch o.Res.Verdict {
		case "unsat":
			discharged++
			claimed++
		case "sat":
			claimed++
			failures = append(failures, &Failure{O: o, Kind: "sat"})
		default:
			if matchesKnown(known, prop, o.ID) != nil {
				// a recorded finding: no need to burn the retry budget on it
				claimed++
				failures = append(failures, &Failure{O: o, Kind: "undecided"})
				continue
			}
			// retry harder before saying anything - within a total budget: on a tree that breaks many obligations at once the
			// verdict is clear long before every one of them has had its second chance
			retryT := 40
			budget := 150.0
			if *tier == "thorough" {
				retryT = 90
				budget = 900.0
			}
			if o.Res != nil && strings.HasPrefix(o.Res.Raw, "not attempted:") {
				// cut off after 60 failures: neither discharged nor a violation of its own (the 60 are)
				notAttempted = append(notAttempted, o)
				continue
			}
			if retrySpent > budget {
				if inBaseline[o.ID] || len(bl.Discharged[prop]) == 0 || newSinceBaseline(o.ID) {
					claimed++
					failures = append(failures, &Failure{O: o, Kind: "undecided"})
				} else {
					unclaimed = append(unclaimed, o)
				}
				continue
			}
			t0r := time.Now()
			r := solve(o.Query, retryT, false)
			retrySpent += time.Since(t0r).Seconds()
			if r.Verdict == "unknown" && *tier == "thorough" {
				r = solve(strings.Replace(o.Query, "(set-logic ALL)", "(set-logic ALL)\n(set-option :smt.random_seed 7)", 1), retryT, false)
			}
			o.Res = &r
			switch r.Verdict {
			case "unsat":
				discharged++
				claimed++
			case "sat":
				claimed++
				failures = append(failures, &Failure{O: o, Kind: "sat"})
			default:
				if inBaseline[o.ID] || len(bl.Discharged[prop]) == 0 || newSinceBaseline(o.ID) || matchesKnown(known, prop, o.ID) != nil {
					claimed++
					failures = append(failures, &Failure{O: o, Kind: "undecided"})
				} else {
					unclaimed = append(unclaimed, o)
				}
			}
		}
	}
	for _, e := range pr.errs {
		failures = append(failures, &Failure{O: &Obligation{ID: "orphaned:" + firstWord(e), Clause: e}, Kind: "orphaned", Note: e})
	}
	if len(pr.funcs) == 0 && len(pr.errs) == 0 {
		failures = append(failures, &Failure{O: &Obligation{ID: "no-contracts"}, Kind: "orphaned", Note: "no function serves " + prop})
	}
	// classify failures
	exit := 0
	nviol := 0
	var knownHit []string
	var violLines []string
	for _, fl := range failures {
		if fl.Kind == "vacuous" {
			fmt.Printf("MACHINERY-BROKEN: %s %s\n", fl.O.ID, fl.Note)
			exit = 2
			continue
		}
		if kf := matchesKnown(known, prop, fl.O.ID); kf != nil {
			line := fmt.Sprintf("KNOWN-FINDING: property=%s %s fails (%s): %s", prop, fl.O.ID, fl.Kind, kf.Witness)
			knownHit = append(knownHit, line)
			claimed-- // a known finding is not part of the proof claim
			continue
		}
		nviol++
		var replayPath, note string
		var confirmed bool
		if nviol <= 4 || (fl.O.Res != nil && fl.O.Res.Verdict == "sat" && nviol <= 12) {
			replayPath, confirmed, note = doReplay(w, pr, fl)
		} else {
			// the first violations are replayed in full (candidate search + harness on the real code); the rest of a long list
			// only gets its replay file - replaying hundreds of failures of one broken tree would take hours
			content := map[string]interface{}{"obligation": fl.O.ID, "kind": fl.Kind, "clause": fl.O.Clause, "note": fl.Note,
				"result": "no-failing-input-found", "not_replayed": "more than 4 violations in this run: only the first ones are replayed on the real code"}
			if fl.O.Res != nil {
				content["verdict"], content["solver"] = fl.O.Res.Verdict, fl.O.Res.Solver
				raw := fl.O.Res.Raw
				if len(raw) > 2000 {
					raw = raw[:2000] + "..."
				}
				content["solver_output"] = raw
			}
			replayPath = writeReplayFile(prop, fl.O.ID, content)
		}
		fl.Replay, fl.Confirmed, fl.Note = replayPath, confirmed, fl.Note+note
		line := fmt.Sprintf("VIOLATION property=%s replay=%s obligation=%s", prop, replayPath, fl.O.ID)
		if !confirmed {
			line += " (" + fl.Kind + ") no-failing-input-found"
		} else {
			line += " counterexample replayed on the real code"
		}
		violLines = append(violLines, line)
	}
	// bounded stand-ins: functions that cannot be brought within the verifier's reach get a bounded check of the real code
	// (labelled bounded, never counted as proved); a failing case is a violation with its input
	standins := runBoundedStandins(prop)
	for _, si := range standins {
		if kf := matchesKnown(known, prop, "bounded:"+fmt.Sprint(si["function"])); kf != nil && si["result"] == "violation" {
			// a listed finding shown by a bounded stand-in: exactly the listed set of failures (witness_match), nothing else
			if re, err := regexp.Compile(kf.WitnessMatch); err == nil && kf.WitnessMatch != "" && re.MatchString(fmt.Sprint(si["failing_input"])) {
				knownHit = append(knownHit, fmt.Sprintf("KNOWN-FINDING: property=%s bounded:%s fails (bounded check of the real code): %s", prop, si["function"], kf.Witness))
				si["result"] = "known finding: " + kf.Witness
			}
		}
		if si["result"] == "violation" {
			nviol++
			content := map[string]interface{}{"obligation": "bounded:" + fmt.Sprint(si["function"]), "kind": "bounded", "result": "counterexample found on the real code",
				"failing_input": si["failing_input"], "bound": si["bound"], "harness_source": si["harness_source"], "harness_pkg": si["harness_pkg"], "harness_file": si["harness_file"], "harness_run": si["harness_run"]}
			path := writeReplayFile(prop, "bounded:"+fmt.Sprint(si["function"]), content)
			tail := "counterexample replayed on the real code"
			if strings.HasPrefix(fmt.Sprint(si["failing_input"]), "the bounded harness did not complete") {
				// the tree does not build with the harness, or the function's signature changed: undecided, not a counterexample
				tail = "(bounded harness did not complete) no-failing-input-found"
			}
			violLines = append(violLines, fmt.Sprintf("VIOLATION property=%s replay=%s obligation=bounded:%s %s", prop, path, si["function"], tail))
			delete(si, "harness_source")
		} else {
			delete(si, "harness_source")
		}
	}
	boundedStandins = standins
	// thorough tier: every bounded search harness that belongs to this property's obligations is also run on the tree as it
	// is (not only when an obligation fails): a counterexample found this way is a violation of its own. Harnesses that
	// demonstrate an OPEN known finding are skipped (they would re-report it).
	// quick tier: only the harnesses that demonstrate an OPEN known finding of this property are run, so that every listed
	// finding is re-demonstrated (and printed) on every run and is noticed when it disappears or changes shape
	{
		for _, hs := range runHarnessSweep(prop, pr, known, *tier != "thorough") {
			if kf := matchesKnown(known, prop, "harness:"+fmt.Sprint(hs["harness_run"])); kf != nil && hs["result"] == "violation" {
				if re, err := regexp.Compile(kf.WitnessMatch); err == nil && kf.WitnessMatch != "" && re.MatchString(fmt.Sprint(hs["failing_input"])) {
					knownHit = append(knownHit, fmt.Sprintf("KNOWN-FINDING: property=%s harness:%s fails (bounded search on the real code): %s", prop, hs["harness_run"], kf.Witness))
					hs["result"] = "known finding: " + kf.Witness
				}
			}
			if hs["result"] == "violation" {
				nviol++
				content := map[string]interface{}{"obligation": "harness:" + fmt.Sprint(hs["harness_run"]), "kind": "bounded-search", "result": "counterexample found on the real code",
					"failing_input": hs["failing_input"], "harness_pkg": hs["harness_pkg"], "harness_file": hs["harness_file"], "harness_run": hs["harness_run"], "harness_source": hs["harness_source"]}
				path := writeReplayFile(prop, "harness:"+fmt.Sprint(hs["harness_run"]), content)
				violLines = append(violLines, fmt.Sprintf("VIOLATION property=%s replay=%s obligation=harness:%s counterexample replayed on the real code", prop, path, hs["harness_run"]))
			}
			delete(hs, "harness_source")
			harnessSweep = append(harnessSweep, hs)
		}
	}
	sort.Strings(knownHit)
	for _, l := range dedup(knownHit) {
		fmt.Println(l)
	}
	for _, l := range violLines {
		fmt.Println(l)
	}
	if nviol > 0 {
		exit = 1
	}
	// canaries (machinery self-check): only meaningful when the tree itself verifies
	var canaryReport []map[string]interface{}
	if !*noCanary && exit == 0 {
		var ok bool
		canaryReport, ok = runCanaries(prop, *tier, seed)
		if !ok {
			fmt.Printf("MACHINERY-BROKEN: a must-fail canary for %s still verifies\n", prop)
			exit = 2
		}
	}
	if *writeBaseline {
		var ids []string
		for _, o := range pr.obls {
			if o.Expect == "unsat" && o.Res.Verdict == "unsat" {
				ids = append(ids, o.ID)
			}
		}
		sort.Strings(ids)
		bl.Discharged[prop] = ids
		und := []string{}
		for _, o := range pr.obls {
			if o.Expect == "unsat" && o.Res.Verdict != "unsat" {
				und = append(und, o.ID)
			}
		}
		sort.Strings(und)
		if bl.Undecided == nil {
			bl.Undecided = map[string][]string{}
		}
		bl.Undecided[prop] = und
		b, _ := json.MarshalIndent(bl, "", " ")
		os.WriteFile(filepath.Join(verifDir, "baseline_obligations.json"), b, 0o644)
	}
	wall := time.Since(t0).Seconds()
	writeEvidence(prop, *tier, seed, pr, failures, unclaimed, canaryReport, wall, solveS, nviol, knownHit)
	if len(notAttempted) > 0 {
		fmt.Printf("govc: %d obligations were not attempted (cut off after 60 failures); they are neither discharged nor counted\n", len(notAttempted))
	}
	fmt.Printf("govc: property %s tier %s: %d functions under contract, %d obligations claimed, %d discharged, %d known-finding, %d unclaimed(undecided, never in baseline), %d violations, %.1fs\n",
		prop, *tier, len(pr.funcs), claimed, discharged, len(dedup(knownHit)), len(unclaimed), nviol, wall)
	return exit
}

func firstWord(s string) string {
	if i := strings.IndexAny(s, ": "); i > 0 {
		return s[:i]
	}
	return s
}

func dedup(ss []string) []string {
	var out []string
	seen := map[string]bool{}
	for _, s := range ss {
		if !seen[s] {
			seen[s] = true
			out = append(out, s)
		}
	}
	return out
}

func matchesKnown(ks []KnownFinding, prop, id string) *KnownFinding {
	for i := range ks {
		k := &ks[i]
		if k.Property != prop || k.Status != "open" {
			continue
		}
		if re, err := regexp.Compile("^(?:" + k.Obligation + ")$"); err == nil && re.MatchString(id) {
			return k
		}
	}
	return nil
}

var failedSoFar int64

// undecidedAtBaseline: nil when the baseline predates the record (then only discharged ids are claimed, as before)
var undecidedAtBaseline map[string]bool

func newSinceBaseline(id string) bool {
	return undecidedAtBaseline != nil && !undecidedAtBaseline[id]
}

func solveAllPrepared(obls []*Obligation, timeoutS int, all bool) {
	atomic.StoreInt64(&failedSoFar, 0)
	done := make(chan struct{}, len(obls))
	sem := make(chan struct{}, maxPar())
	for _, o := range obls {
		o := o
		sem <- struct{}{}
		go func() {
			defer func() { <-sem; done <- struct{}{} }()
			to := timeoutS
			if o.Expect == "sat" && to > 3 {
				to = 3
			}
			// a tree that breaks dozens of obligations at once (an uncontracted helper in the middle of the engine) would
			// otherwise spend a full timeout on each of hundreds of hopeless queries: once 60 obligations have failed the
			// verdict is clear, the rest is not attempted (reported as undecided, never as discharged)
			if o.Expect == "unsat" && atomic.LoadInt64(&failedSoFar) >= 60 {
				o.Res = &SolverResult{Verdict: "unknown", Solver: "none", Raw: "not attempted: 60 obligations of this run had already failed"}
				return
			}
			r := solve(o.Query, to, all && o.Expect == "unsat")
			o.Res = &r
			if o.Expect == "unsat" && r.Verdict != "unsat" {
				atomic.AddInt64(&failedSoFar, 1)
			}
		}()
	}
	for range obls {
		<-done
	}
}

func maxPar() int {
	n := 12
	if s := os.Getenv("GOVC_PAR"); s != "" {
		if v, err := strconv.Atoi(s); err == nil && v > 0 {
			n = v
		}
	}
	return n
}

func writeReplayFile(prop, name string, content map[string]interface{}) string {
	dir := filepath.Join(outDir(), "replay", "out")
	os.MkdirAll(dir, 0o755)
	safe := strings.NewReplacer("/", "_", "#", "_", "(", "", ")", "", "*", "", ":", "_", " ", "_", "@", "_at_").Replace(name)
	p := filepath.Join(dir, prop+"_"+safe+".json")
	content["property"] = prop
	b, _ := json.MarshalIndent(content, "", " ")
	os.WriteFile(p, b, 0o644)
	return p
}

// ---------------- evidence ----------------

func writeEvidence(prop, tier string, seed int, pr *PropRun, failures []*Failure, unclaimed []*Obligation, canaries []map[string]interface{}, wall, solveS float64, nviol int, knownHit []string) {
	ev := map[string]interface{}{"property_id": prop, "tier": tier, "seed": seed, "level": "proof", "wall_s": wall, "violations": nviol}
	cov := map[string]interface{}{}
	cov["checker_cmd"] = "/verif/bin/check " + prop + " " + tier + "   (govc: VCs generated from /repo's current source, discharged by z3 4.8.12 / z3-new 5.1.0 / cvc5 1.0.3)"
	var assumptions []string
	if pr != nil {
		n, d := 0, 0
		backends := map[string]int{}
		solverT := 0.0
		kinds := map[string]int{}
		var samples []interface{}
		var bounded []string
		failedIDs := map[string]bool{}
		for _, f := range failures {
			failedIDs[f.O.ID] = true
		}
		for _, o := range pr.obls {
			if o.Expect == "sat" {
				continue
			}
			if o.Res != nil && o.Res.Verdict == "unsat" {
				n++
				d++
				backends[strings.TrimSuffix(o.Res.Solver, " (cached)")]++
				solverT += o.Res.Seconds
				kinds[o.Kind]++
				if o.Bounded > 0 {
					bounded = append(bounded, fmt.Sprintf("%s bounded(%d)", o.ID, o.Bounded))
				}
				if len(samples) < 4 && (o.Kind == "ensures" || o.Kind == "lemma" || strings.HasPrefix(o.Kind, "inv")) && len(o.Query) < 30000 {
					tail := o.Query
					if i := strings.LastIndex(tail, "(assert (not "); i >= 0 {
						tail = tail[i:]
					}
					samples = append(samples, map[string]interface{}{"obligation": o.ID, "clause": o.Clause, "path_condition_conjuncts": len(o.PC),
						"negated_goal_smt": strings.TrimSpace(strings.Replace(tail, "(check-sat)\n(get-model)", "", 1)), "verdict": o.Res.Verdict, "backend": o.Res.Solver, "seconds": o.Res.Seconds})
				}
			} else if failedIDs[o.ID] {
				n++
			}
		}
		knownN := len(dedup(knownHit))
		cov["obligations"] = n - knownObls(failures, knownHit, prop)
		cov["discharged"] = d
		cov["known_finding_obligations"] = knownN
		cov["known_findings"] = dedup(knownHit)
		cov["backends"] = backends
		cov["solver_time_s"] = solverT
		// the obligations that took the deciding solver longest (recorded time of the original solve when served from the cache):
		// queries that drift towards the timeout are the ones that later fail for no semantic reason
		type slowO struct {
			ID      string  `json:"obligation"`
			Seconds float64 `json:"seconds"`
			Solver  string  `json:"backend"`
		}
		var slow []slowO
		for _, o := range pr.obls {
			if o.Res != nil && o.Res.Seconds >= 1.0 {
				slow = append(slow, slowO{o.ID, o.Res.Seconds, o.Res.Solver})
			}
		}
		sort.Slice(slow, func(i, j int) bool { return slow[i].Seconds > slow[j].Seconds })
		if len(slow) > 12 {
			slow = slow[:12]
		}
		cov["slowest_obligations"] = slow
		if len(boundedStandins) > 0 {
			cov["bounded_standins"] = boundedStandins
		}
		if len(harnessSweep) > 0 {
			cov["harness_sweep"] = harnessSweep
		}
		cov["solve_wall_s"] = solveS
		cov["load_s"] = pr.loadSecs
		cov["obligation_kinds"] = kinds
		cov["functions_under_contract"] = pr.funcs
		cov["bounded"] = bounded
		var uc []string
		for _, o := range unclaimed {
			uc = append(uc, o.ID)
		}
		cov["unclaimed_undecided"] = uc
		cov["samples"] = samples
		cov["canaries"] = canaries
		var fl []interface{}
		for _, f := range failures {
			fl = append(fl, map[string]interface{}{"obligation": f.O.ID, "kind": f.Kind, "replay": f.Replay, "confirmed_on_real_code": f.Confirmed, "note": f.Note})
		}
		cov["failed_obligations"] = fl
		var tb []string
		tb = append(tb, "govc itself (VC generator; guarded by must-fail canaries and replay), the SMT solvers, the Go compiler/runtime")
		for a := range pr.assumed {
			tb = append(tb, a)
		}
		for r := range pr.relied {
			tb = append(tb, "assumed (extern) contract: "+r)
		}
		for _, t := range pr.w.trusted {
			tb = append(tb, "trusted spec: "+t)
		}
		sort.Strings(tb[1:])
		cov["trusted_base"] = tb
		assumptions = append(assumptions,
			"integers outside `ints bv` functions are mathematical (no wrap-around modelled)",
			"A-SEQ: one goroutine per knowledge-base instance; no goroutine is started by any function under contract (rejected syntactically)",
			"partial correctness: termination only where a `decreases` clause is discharged",
			"callee contracts are assumed at call sites and checked on the callee's own body (modular); extern contracts are assumed only")
		for _, wn := range pr.w.warnings {
			assumptions = append(assumptions, "warning: "+wn)
		}
	} else {
		cov["obligations"] = 0
		cov["discharged"] = 0
		cov["trusted_base"] = []string{}
		cov["evaluations"] = 1
		cov["distinct_nontrivial"] = 0
	}
	ev["coverage"] = cov
	ev["assumptions"] = assumptions
	os.MkdirAll(filepath.Join(outDir(), "evidence"), 0o755)
	b, _ := json.MarshalIndent(ev, "", " ")
	os.WriteFile(filepath.Join(outDir(), "evidence", prop+".json"), b, 0o644)
}

func knownObls(failures []*Failure, knownHit []string, prop string) int {
	ks := loadKnown()
	n := 0
	for _, f := range failures {
		if matchesKnown(ks, prop, f.O.ID) != nil && f.O.Expect == "unsat" {
			n++
		}
	}
	return n
}

// cmdSelftest runs the whole must-fail / must-pass corpus (in memory) and reports what each mutant trips.
func cmdSelftest(args []string) int {
	pat := ".*"
	if len(args) > 0 {
		pat = args[0]
	}
	re := regexp.MustCompile(pat)
	files, _ := filepath.Glob(filepath.Join(verifDir, "mutants", "*.patch"))
	sort.Strings(files)
	bad := 0
	for _, p := range files {
		name := strings.TrimSuffix(filepath.Base(p), ".patch")
		if !re.MatchString(name) {
			continue
		}
		var m *Mutant
		b, _ := os.ReadFile(p)
		props := ""
		for _, ln := range strings.Split(string(b), "\n") {
			if strings.HasPrefix(ln, "# property:") {
				props = strings.TrimSpace(strings.TrimPrefix(ln, "# property:"))
			}
		}
		for _, prop := range strings.Fields(strings.ReplaceAll(props, ",", " ")) {
			for _, x := range listMutants(prop) {
				if x.Name == name {
					m = x
				}
			}
			if m == nil {
				continue
			}
			ov, err := overlayFor(m)
			if err != nil {
				fmt.Printf("%-45s %-4s SKIP (does not apply): %v\n", name, prop, err)
				continue
			}
			ids, _ := failingIDs(ov, prop, "quick", m.Kind == "must-pass")
			hit := false
			var ex *regexp.Regexp
			if m.Expect != "" {
				ex, _ = regexp.Compile(m.Expect)
			}
			for _, id := range ids {
				if ex == nil || ex.MatchString(id) {
					hit = true
				}
			}
			status := "detected"
			if m.Kind == "must-pass" {
				status = "verifies"
				if len(ids) > 0 {
					status = "CONTROL-FAILS"
					bad++
				}
			} else if !hit {
				status = "NOT-DETECTED"
				bad++
			}
			show := ids
			if len(show) > 3 {
				show = append(show[:3:3], fmt.Sprintf("... %d more", len(ids)-3))
			}
			fmt.Printf("%-45s %-4s %-14s %v\n", name, prop, status, show)
		}
	}
	if bad > 0 {
		return 1
	}
	return 0
}

func outDir() string {
	if d := os.Getenv("GOVC_OUT"); d != "" {
		return d
	}
	return verifDir
}

// checkImplementers: an interface-method contract with an `implementers` clause is only as good as its implementers. The
// list must be exactly the repository methods implementing the interface (closed world, recomputed from the type checker on
// every run); each must be under a CHECKED contract that is no-panic when the interface contract is, and whose frame lies
// inside the interface contract's. Returns the implementers' keys (they join the property's closure) and the mismatches.
func (w *World) checkImplementers(key string, c *Contract) (keys []string, errs []string) {
	obj := w.conObj[c]
	if obj == nil {
		return nil, nil
	}
	sig := obj.Type().(*types.Signature)
	if sig.Recv() == nil {
		return nil, nil
	}
	iface, ok := types.Unalias(sig.Recv().Type()).Underlying().(*types.Interface)
	if !ok {
		return nil, []string{shortName(key) + ": implementers clause on a non-interface method"}
	}
	byShort := map[string]string{}
	for k := range w.funcs {
		byShort[shortName(k)] = k
	}
	want := map[string]bool{}
	for _, pk := range w.targets {
		sc := pk.Types.Scope()
		for _, n := range sc.Names() {
			tn, ok := sc.Lookup(n).(*types.TypeName)
			if !ok || tn.IsAlias() {
				continue
			}
			if _, isIface := tn.Type().Underlying().(*types.Interface); isIface {
				continue
			}
			for _, t := range []types.Type{tn.Type(), types.NewPointer(tn.Type())} {
				if types.Implements(t, iface) {
					m, _, _ := types.LookupFieldOrMethod(t, true, pk.Types, obj.Name())
					if fn, ok := m.(*types.Func); ok {
						want[shortName(fn.FullName())] = true
					}
					break
				}
			}
		}
	}
	listed := map[string]bool{}
	for _, it := range c.Implementers {
		listed[it] = true
		if !want[it] {
			errs = append(errs, fmt.Sprintf("%s: listed implementer %s does not implement the interface (contract orphaned)", shortName(key), it))
		}
	}
	var ws []string
	for it := range want {
		ws = append(ws, it)
	}
	sort.Strings(ws)
	for _, it := range ws {
		if !listed[it] {
			errs = append(errs, fmt.Sprintf("%s: %s implements the interface but is not listed among the implementers (closed world broken)", shortName(key), it))
			continue
		}
		ik := byShort[it]
		ic := w.contracts[ik]
		if ic == nil || ic.Extern {
			errs = append(errs, fmt.Sprintf("%s: implementer %s has no checked contract", shortName(key), it))
			continue
		}
		keys = append(keys, ik)
		if c.NoPanic && c.PanicsOnly == nil && !(ic.NoPanic && !ic.NoPanicTrusted && ic.PanicsOnly == nil) {
			errs = append(errs, fmt.Sprintf("%s: is declared nopanic but implementer %s is not checked nopanic", shortName(key), it))
		}
		if !c.ModAll {
			// frames are compared on the heap arrays / ghosts they resolve to
			rf := w.newFuncCtx("<impl>")
			resolve := func(cc *Contract) (map[string]bool, error) {
				out := map[string]bool{}
				var rerr error
				func() {
					defer func() {
						if r := recover(); r != nil {
							rerr = fmt.Errorf("%v", r)
						}
					}()
					for _, m := range cc.Modifies {
						hs, gs := rf.resolveMod(cc, m)
						for _, h := range hs {
							out[h] = true
						}
						for _, g := range gs {
							out[g] = true
						}
					}
				}()
				return out, rerr
			}
			have, err1 := resolve(c)
			need, err2 := resolve(ic)
			if err1 != nil || err2 != nil {
				errs = append(errs, fmt.Sprintf("%s: cannot resolve the frames of the interface contract / implementer %s: %v %v", shortName(key), it, err1, err2))
			}
			if ic.ModAll {
				errs = append(errs, fmt.Sprintf("%s: implementer %s modifies * but the interface contract has a frame", shortName(key), it))
			}
			var miss []string
			for h := range need {
				if !have[h] && !have[strings.TrimPrefix(h, "fresh:")] {
					miss = append(miss, h)
				}
			}
			sort.Strings(miss)
			for _, h := range miss {
				errs = append(errs, fmt.Sprintf("%s: implementer %s modifies %s, outside the interface contract's frame", shortName(key), it, h))
			}
		}
	}
	return keys, errs
}

var boundedStandins []map[string]interface{}

type boundedStandin struct {
	Properties []string `json:"properties"`
	Function   string   `json:"function"`
	Reason     string   `json:"reason"`
	Pkg        string   `json:"pkg"`
	File       string   `json:"file"`
	Inject     string   `json:"inject"`
	Run        string   `json:"run"`
	Bound      string   `json:"bound"`
}

// runBoundedStandins runs the bounded checks registered in /verif/replay/bounded.json for this property on the real code
// (go test -overlay, nothing is written into the repository).
func runBoundedStandins(prop string) []map[string]interface{} {
	b, err := os.ReadFile(filepath.Join(verifDir, "replay", "bounded.json"))
	if err != nil {
		return nil
	}
	var list []boundedStandin
	if json.Unmarshal(b, &list) != nil {
		return nil
	}
	var out []map[string]interface{}
	for _, bs := range list {
		if !has(bs.Properties, prop) {
			continue
		}
		src, err := os.ReadFile(filepath.Join(verifDir, "replay", bs.File))
		if err != nil {
			continue
		}
		t0 := time.Now()
		res, _ := runGoTest(bs.Pkg, bs.Inject, string(src), bs.Run)
		rep := map[string]interface{}{"function": bs.Function, "why_not_deductive": bs.Reason, "bound": bs.Bound, "label": "BOUNDED (not proved)",
			"seconds": time.Since(t0).Seconds(), "harness_pkg": bs.Pkg, "harness_file": bs.Inject, "harness_run": bs.Run, "harness_source": string(src)}
		switch {
		case strings.Contains(res, "CONFIRMED:"):
			rep["result"] = "violation"
			rep["failing_input"] = extractLine(res, "CONFIRMED:")
		case strings.Contains(res, "BOUNDED-CASES:"):
			rep["result"] = "held on every case within the bound"
			rep["cases"] = strings.TrimSpace(strings.SplitN(extractLine(res, "BOUNDED-CASES:"), "BOUNDED-CASES:", 2)[1])
		default:
			// the harness did not run to completion (the tree does not build, or the function's signature changed)
			rep["result"] = "violation"
			rep["failing_input"] = "the bounded harness did not complete: " + tailStr(res, 400)
		}
		out = append(out, rep)
	}
	return out
}

var harnessSweep []map[string]interface{}

// runHarnessSweep runs, once each, the search harnesses of /verif/replay/families.json whose pattern matches an obligation of
// this property run, except those whose obligations are an open known finding.
func runHarnessSweep(prop string, pr *PropRun, known []KnownFinding, onlyKnown bool) []map[string]interface{} {
	b, err := os.ReadFile(filepath.Join(verifDir, "replay", "families.json"))
	if err != nil {
		return nil
	}
	var fams []searchFamily
	if json.Unmarshal(b, &fams) != nil {
		return nil
	}
	var out []map[string]interface{}
	done := map[string]bool{}
	for _, fam := range fams {
		re, err := regexp.Compile(fam.Match)
		if err != nil {
			continue
		}
		key := fam.Pkg + "/" + fam.File + "/" + fam.Run
		if done[key] {
			continue
		}
		if onlyKnown && matchesKnown(known, prop, "harness:"+fam.Run) == nil {
			continue
		}
		if len(fam.Props) > 0 {
			in := false
			for _, p := range fam.Props {
				in = in || p == prop
			}
			if !in {
				continue
			}
		}
		matches, knownOnly := false, false
		for _, o := range pr.obls {
			if re.MatchString(o.ID) {
				matches = true
				if kf := matchesKnown(known, prop, o.ID); kf != nil {
					knownOnly = true
				}
			}
		}
		if !matches || knownOnly {
			continue
		}
		done[key] = true
		src, err := os.ReadFile(filepath.Join(verifDir, "replay", fam.File))
		if err != nil {
			continue
		}
		t0 := time.Now()
		res, _ := runGoTest(fam.Pkg, fam.Inject, string(src), fam.Run)
		rep := map[string]interface{}{"harness_pkg": fam.Pkg, "harness_file": fam.Inject, "harness_run": fam.Run, "from": "/verif/replay/" + fam.File,
			"label": "BOUNDED search (not proved)", "seconds": time.Since(t0).Seconds(), "harness_source": string(src)}
		switch {
		case strings.Contains(res, "CONFIRMED:"):
			rep["result"] = "violation"
			rep["failing_input"] = extractLine(res, "CONFIRMED:")
		case strings.Contains(res, "\nok") || strings.HasPrefix(res, "ok") || strings.Contains(res, "--- PASS"):
			rep["result"] = "no counterexample within the harness's bound"
		default:
			rep["result"] = "harness did not complete (ignored): " + tailStr(res, 300)
		}
		out = append(out, rep)
	}
	return out
}

package main

// Must-fail canaries and must-pass controls: small patches applied IN MEMORY (packages overlay) to /repo's
// current sources. A canary that still verifies means the machinery is broken (exit 2), not that the code is wrong.

import (
	"fmt"
	"os"
	"os/exec"
	"path/filepath"
	"regexp"
	"sort"
	"strings"
)

type Mutant struct {
	Path   string
	Name   string
	Prop   string
	Kind   string // must-fail | must-pass
	Expect string // regexp over failing obligation ids (must-fail)
	Files  []string
}

func listMutants(prop string) []*Mutant {
	files, _ := filepath.Glob(filepath.Join(verifDir, "mutants", "*.patch"))
	sort.Strings(files)
	var out []*Mutant
	for _, p := range files {
		b, err := os.ReadFile(p)
		if err != nil {
			continue
		}
		m := &Mutant{Path: p, Name: strings.TrimSuffix(filepath.Base(p), ".patch"), Kind: "must-fail"}
		for _, ln := range strings.Split(string(b), "\n") {
			switch {
			case strings.HasPrefix(ln, "# property:"):
				m.Prop = strings.TrimSpace(strings.TrimPrefix(ln, "# property:"))
			case strings.HasPrefix(ln, "# kind:"):
				m.Kind = strings.TrimSpace(strings.TrimPrefix(ln, "# kind:"))
			case strings.HasPrefix(ln, "# expect:"):
				m.Expect = strings.TrimSpace(strings.TrimPrefix(ln, "# expect:"))
			case strings.HasPrefix(ln, "+++ b/"):
				m.Files = append(m.Files, strings.TrimSpace(strings.TrimPrefix(ln, "+++ b/")))
			}
		}
		if has(strings.Fields(strings.ReplaceAll(m.Prop, ",", " ")), prop) {
			out = append(out, m)
		}
	}
	return out
}

// overlayFor applies the patch to copies of the touched files and returns the overlay.
func overlayFor(m *Mutant) (map[string][]byte, error) {
	dir, err := os.MkdirTemp(scratch(), "mut-")
	if err != nil {
		return nil, err
	}
	defer os.RemoveAll(dir)
	for _, f := range m.Files {
		src, err := os.ReadFile(filepath.Join(repoDir, f))
		if err != nil {
			return nil, err
		}
		os.MkdirAll(filepath.Dir(filepath.Join(dir, f)), 0o755)
		os.WriteFile(filepath.Join(dir, f), src, 0o644)
	}
	cmd := exec.Command("patch", "-p1", "-s", "--no-backup-if-mismatch", "-d", dir, "-i", m.Path)
	if out, err := cmd.CombinedOutput(); err != nil {
		return nil, fmt.Errorf("patch %s does not apply to the current tree: %v %s", m.Name, err, string(out))
	}
	ov := map[string][]byte{}
	for _, f := range m.Files {
		b, err := os.ReadFile(filepath.Join(dir, f))
		if err != nil {
			return nil, err
		}
		ov[filepath.Join(repoDir, f)] = b
	}
	return ov, nil
}

// failingIDs runs the property on an overlaid tree and returns the ids of failed obligations (known findings excluded).
// failingIDs lists the obligations of the property that do not discharge on the (overlaid) tree. With retryUnknown an undecided
// obligation is solved again, alone, with the retry budget of the quick tier - used for must-pass controls, where a timeout
// under load must not be mistaken for a brittle proof.
func failingIDs(ov map[string][]byte, prop, tier string, retryUnknown ...bool) ([]string, error) {
	w, err := setupWorld(ov)
	if err != nil {
		return []string{"load:" + err.Error()}, nil
	}
	pr, _ := runProp(w, prop, tier, true)
	known := loadKnown()
	var ids []string
	for _, o := range pr.obls {
		if o.Expect != "unsat" || o.Res == nil || o.Res.Verdict == "unsat" {
			continue
		}
		if matchesKnown(known, prop, o.ID) != nil {
			continue
		}
		if len(retryUnknown) > 0 && retryUnknown[0] && o.Res.Verdict != "sat" && o.Query != "" {
			r := solve(o.Query, 40, false)
			if r.Verdict == "unsat" {
				continue
			}
			o.Res = &r
		}
		ids = append(ids, o.ID+" ("+o.Res.Verdict+")")
	}
	for _, e := range pr.errs {
		ids = append(ids, "orphaned:"+e)
	}
	return ids, nil
}

func runCanaries(prop, tier string, seed int) (report []map[string]interface{}, ok bool) {
	ok = true
	ms := listMutants(prop)
	var fails, passes []*Mutant
	for _, m := range ms {
		if m.Kind == "must-pass" {
			passes = append(passes, m)
		} else {
			fails = append(fails, m)
		}
	}
	var sel []*Mutant
	if tier == "thorough" {
		sel = append(append(sel, fails...), passes...)
	} else if len(fails) > 0 {
		if seed < 0 {
			seed = -seed
		}
		sel = append(sel, fails[seed%len(fails)])
	}
	for _, m := range sel {
		rep := map[string]interface{}{"mutant": m.Name, "kind": m.Kind}
		ov, err := overlayFor(m)
		if err != nil {
			// a canary that no longer applies (the code around it changed) is skipped, not an alarm
			rep["result"] = "skipped: " + err.Error()
			report = append(report, rep)
			continue
		}
		ids, _ := failingIDs(ov, prop, "quick", m.Kind == "must-pass")
		rep["failed_obligations"] = ids
		if m.Kind == "must-pass" {
			if len(ids) > 0 {
				rep["result"] = "CONTROL FAILED: behaviour-preserving edit no longer verifies (brittle proof)"
				fmt.Printf("govc: must-pass control %s fails: %v\n", m.Name, ids)
				ok = false
			} else {
				rep["result"] = "verifies, as it must"
			}
		} else {
			hit := false
			var re *regexp.Regexp
			if m.Expect != "" {
				re, _ = regexp.Compile(m.Expect)
			}
			for _, id := range ids {
				if re == nil || re.MatchString(id) {
					hit = true
				}
			}
			if hit {
				rep["result"] = "detected, as it must"
			} else {
				rep["result"] = "NOT DETECTED"
				fmt.Printf("govc: must-fail canary %s was not detected (failed: %v, expected /%s/)\n", m.Name, ids, m.Expect)
				ok = false
			}
		}
		report = append(report, rep)
	}
	return
}

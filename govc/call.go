package main

import (
	"fmt"
	"go/ast"
	"go/types"
	"regexp"
	"strings"
)

// isAbortCall: functions that end the process without unwinding (no deferred function runs, recover() does not see them)
func isAbortCall(fn *types.Func) bool {
	if fn.Pkg() == nil {
		return false
	}
	switch fn.FullName() {
	case "os.Exit", "log.Fatal", "log.Fatalf", "log.Fatalln", "runtime.Goexit":
		return true
	}
	return (isLoggerPkg(fn.Pkg()) || fn.Pkg().Path() == "log") && strings.HasPrefix(fn.Name(), "Fatal")
}

func isLoggerPkg(p *types.Package) bool {
	if p == nil {
		return false
	}
	pp := p.Path()
	return strings.HasSuffix(pp, "/logger") || strings.Contains(pp, "logrus") || strings.Contains(pp, "zerolog") || strings.Contains(pp, "go.uber.org/zap")
}

func (f *FuncCtx) calleeOf(call *ast.CallExpr) (obj types.Object, recv ast.Expr) {
	switch x := ast.Unparen(call.Fun).(type) {
	case *ast.Ident:
		obj = f.tinfo().Uses[x]
	case *ast.SelectorExpr:
		if sel := f.tinfo().Selections[x]; sel != nil {
			obj = sel.Obj()
			recv = x.X
		} else {
			obj = f.tinfo().Uses[x.Sel]
		}
	}
	return
}

func shortName(full string) string {
	s := strings.ReplaceAll(full, grulePath+"/", "")
	return s
}

// callEffects records what a call may modify (used to havoc loop targets).
func (f *FuncCtx) callEffects(call *ast.CallExpr, lt *loopTargets) {
	if tv, ok := f.tinfo().Types[call.Fun]; ok && tv.IsType() {
		return
	}
	obj, recv := f.calleeOf(call)
	fn, ok := obj.(*types.Func)
	if !ok {
		if _, isB := obj.(*types.Builtin); isB {
			if obj.Name() == "delete" && len(call.Args) > 0 {
				if m, ok := types.Unalias(f.typeOf(call.Args[0])).Underlying().(*types.Map); ok {
					d, v, l := f.w.mapHeapsT(m, f.bv)
					lt.heaps[d], lt.heaps[v], lt.heaps[l] = true, true, true
				}
			}
			if obj.Name() == "make" || obj.Name() == "new" {
				lt.heaps["alloc"] = true
				if len(call.Args) > 0 {
					if m, ok := types.Unalias(f.tinfo().TypeOf(call.Args[0])).Underlying().(*types.Map); ok {
						d, v, l := f.w.mapHeapsT(m, f.bv)
						lt.heaps[d], lt.heaps[v], lt.heaps[l] = true, true, true
					}
				}
			}
			return
		}
		if obj != nil {
			lt.all = true
		}
		return
	}
	if isLoggerPkg(fn.Pkg()) {
		return
	}
	key := fn.FullName()
	if c, ok := f.w.contracts[key]; ok {
		if c.ModAll {
			lt.all = true
		}
		for _, m := range c.Modifies {
			hs, gs := f.resolveMod(c, m)
			for _, h := range hs {
				if strings.HasPrefix(h, "fresh:") {
					// the callee writes this array only at objects allocated during the call: the loop then writes it only at
					// objects that did not exist when the loop was entered (lazy frame mark instead of a havoc)
					if lt.freshHeaps == nil {
						lt.freshHeaps = map[string]bool{}
					}
					lt.freshHeaps[strings.TrimPrefix(h, "fresh:")] = true
					continue
				}
				lt.heaps[h] = true
			}
			for _, g := range gs {
				lt.ghost[g] = true
			}
		}
		for _, ga := range append(append([]GhostAssign{}, c.GhostEntry...), c.GhostExit...) {
			lt.ghost[ga.Target] = true
		}
		return
	}
	if _, ok := intrinsics[key]; ok {
		// intrinsics touching a local receiver (strings.Builder) modify that variable
		if recv != nil {
			if id, ok := ast.Unparen(recv).(*ast.Ident); ok {
				if v, ok := f.tinfo().Uses[id].(*types.Var); ok && namedPath(v.Type()) == "strings.Builder" {
					lt.vars[v] = true
				}
			}
		}
		if strings.Contains(key, "reflect.Value).Set") {
			lt.heaps["$factstate"] = true
		}
		return
	}
	if fn.Pkg() != nil && strings.HasPrefix(fn.Pkg().Path(), grulePath) && !strings.Contains(fn.Pkg().Path(), "/antlr/parser/") {
		lt.all = true
	}
}

var reModField = regexp.MustCompile(`^(?:(\w+)\.)?(\w+)\.([\w.]+|\*)$`)

// resolveMod maps a modifies item to heap array names and ghost names.
func (f *FuncCtx) resolveMod(c *Contract, item string) (heaps []string, ghosts []string) {
	w := f.w
	item = strings.TrimSpace(item)
	if strings.HasPrefix(item, "fresh ") {
		// `fresh T.*`: fields of objects ALLOCATED DURING the call may be written; objects that existed before are untouched
		hs, _ := f.resolveMod(c, strings.TrimSpace(strings.TrimPrefix(item, "fresh ")))
		for _, h := range hs {
			heaps = append(heaps, "fresh:"+h)
		}
		return heaps, nil
	}
	switch {
	case strings.HasPrefix(item, "$"):
		return nil, []string{item}
	case item == "alloc":
		w.ensureHeap("alloc", "(Array Int Bool)")
		return []string{"alloc"}, nil
	case strings.HasPrefix(item, "map["):
		t, err := w.lookupType(c.PkgName, item)
		if err != nil {
			cfail("modifies %s: %v", item, err)
		}
		m := t.(*types.Map)
		d, v, l := w.mapHeapsT(m, false)
		return []string{d, v, l}, nil
	case strings.HasPrefix(item, "global "):
		name := strings.TrimSpace(strings.TrimPrefix(item, "global "))
		pk := c.PkgName
		if i := strings.Index(name, "."); i >= 0 {
			pk, name = name[:i], name[i+1:]
		}
		p := w.pkgByName(pk)
		if p == nil {
			cfail("modifies %s: unknown package", item)
		}
		v, ok := p.Types.Scope().Lookup(name).(*types.Var)
		if !ok {
			cfail("modifies %s: unknown global", item)
		}
		hn := "G_" + p.Name + "_" + name
		w.ensureHeap(hn, w.sortOf(v.Type(), false))
		return []string{hn}, nil
	case strings.HasPrefix(item, "heap "):
		return []string{strings.TrimSpace(strings.TrimPrefix(item, "heap "))}, nil
	}
	m := reModField.FindStringSubmatch(item)
	if m == nil {
		cfail("bad modifies item %q", item)
	}
	tn := m[2]
	if m[1] != "" {
		tn = m[1] + "." + m[2]
	}
	t, err := w.lookupType(c.PkgName, tn)
	if err != nil {
		cfail("modifies %s: %v", item, err)
	}
	named, st := derefStruct(types.NewPointer(t))
	if named == nil {
		cfail("modifies %s: not a struct", item)
	}
	for _, fp := range f.flatFields(st, "") {
		if m[3] == "*" || fp.path == m[3] || strings.HasPrefix(fp.path, m[3]+".") {
			ok := true
			func() {
				defer func() {
					if r := recover(); r != nil {
						if _, is := r.(unsupported); !is {
							panic(r)
						}
						ok = false
					}
				}()
				hn, _ := w.fieldHeap(named, fp.path, fp.typ, false)
				heaps = append(heaps, hn)
			}()
			_ = ok
		}
	}
	if len(heaps) == 0 {
		cfail("modifies %s: no such field", item)
	}
	return
}

func (f *FuncCtx) evalArgs(st *State, call *ast.CallExpr, sig *types.Signature) []Term {
	var args []Term
	np := sig.Params().Len()
	for i, a := range call.Args {
		v := f.expr(st, a)
		var pt types.Type
		if sig.Variadic() && i >= np-1 {
			if call.Ellipsis.IsValid() {
				pt = sig.Params().At(np - 1).Type()
			} else {
				pt = sig.Params().At(np - 1).Type().(*types.Slice).Elem()
			}
		} else if i < np {
			pt = sig.Params().At(i).Type()
		}
		v = f.implicit(st, v, f.typeOf(a), pt)
		args = append(args, v)
	}
	return args
}

func (f *FuncCtx) call(st *State, call *ast.CallExpr) []Term {
	info := f.tinfo()
	// conversion
	if tv, ok := info.Types[call.Fun]; ok && tv.IsType() {
		v := f.expr(st, call.Args[0])
		return []Term{f.convert(st, v, f.typeOf(call.Args[0]), tv.Type, f.pos(call))}
	}
	obj, recvE := f.calleeOf(call)
	if b, ok := obj.(*types.Builtin); ok {
		return f.builtin(st, call, b.Name())
	}
	// immediately-invoked function literal
	if fl, ok := ast.Unparen(call.Fun).(*ast.FuncLit); ok {
		return f.inlineLit(st, fl, call)
	}
	fn, ok := obj.(*types.Func)
	if !ok {
		unsup("call of a non-static function (%T) at %s", obj, f.pos(call))
	}
	sig := fn.Type().(*types.Signature)
	key := fn.FullName()
	// process aborts: os.Exit, log.Fatal*, and the Fatal* methods of every logger (logrus, zap and zerolog exit the process; the
	// repository's own logger interface does so as soon as a real logger is configured). No deferred recover() intercepts them, so
	// such a call must be UNREACHABLE in a function under contract - in the runs of the properties that SAY so (C20 "does not abort
	// the process", C17 loader, C14 containment). It is deliberately not an obligation elsewhere: NewKnowledgeBaseInstance logs with
	// Fatalf when a clone is not identical to its blueprint, which is reachable only if Clone is broken (C09 decides that) - demanding
	// its unreachability there raised an alarm on the unchanged tree with no failing input, i.e. a false alarm (corrected).
	if isAbortCall(fn) {
		f.oblige(st, "false", f.site("noabort"), "noabort", "no call that ends the process is reachable ("+key+")", []string{"C14", "C17", "C20"}, f.pos(call))
		st.assume("false")
	}
	// loggers: evaluate arguments for their panic edges, no effect
	if isLoggerPkg(fn.Pkg()) {
		for _, a := range call.Args {
			// arguments of logger calls (GetSnapshot(), GrlText, durations ...) are evaluated on a scratch copy: T-LOG
			// covers them too (no effect on verified state; panics inside them are not modelled)
			savedPend, savedImpure, savedWarn := f.pend, f.impure, len(f.w.warnings)
			f.exprOpaque(st.clone(), a)
			f.pend, f.impure = savedPend, savedImpure
			f.w.warnings = f.w.warnings[:savedWarn]
		}
		f.assumed["T-LOG: logger calls and the evaluation of their arguments have no effect on verified state and do not panic"] = true
		var rs []Term
		for i := 0; i < sig.Results().Len(); i++ {
			rs = append(rs, f.havocVal(st, "log", sig.Results().At(i).Type()))
		}
		return rs
	}
	var recv *Term
	if recvE != nil && sig.Recv() != nil {
		// method with pointer receiver called on an embedded by-value struct field (meta.NodeMeta.WriteMetaTo): the callee
		// is inlined with its receiver bound to (object reference, field-path prefix)
		if _, isStruct := types.Unalias(f.typeOf(recvE)).Underlying().(*types.Struct); isStruct && namedPath(f.typeOf(recvE)) != "reflect.Value" && namedPath(f.typeOf(recvE)) != "time.Time" {
			if _, isIntr := intrinsics[key]; !isIntr {
				if selE, ok := ast.Unparen(recvE).(*ast.SelectorExpr); ok && f.w.funcs[key] != nil {
					ref, owner, path, _ := f.fieldLoc(st, selE)
					pt := Term{S: ref.S, Sort: "Path:" + path, GoT: types.NewPointer(owner)}
					args := f.evalArgs(st, call, sig)
					return f.inlineCall(st, f.w.funcs[key], &pt, args, call)
				}
				unsup("method call on a struct value at %s", f.pos(call))
			}
		}
		if h, ok := intrinsics[key]; ok && h.lvalueRecv {
			// receiver handled by the intrinsic (e.g. strings.Builder local)
			return h.fn(f, st, call, recvE, nil)
		}
		r := f.expr(st, recvE)
		// pointer receiver on nil: method body decides; interface receiver nil -> panic
		if _, isIface := types.Unalias(f.typeOf(recvE)).Underlying().(*types.Interface); isIface {
			f.panicIf(st, "(= "+r.S+" 0)", f.site("nilcall:"+fn.Name()))
		}
		recv = &r
	}
	if h, ok := intrinsics[key]; ok {
		return h.fn(f, st, call, recvE, recv)
	}
	args := f.evalArgs(st, call, sig)
	if sig.Variadic() && !call.Ellipsis.IsValid() {
		// pack variadic tail
		np := sig.Params().Len()
		st0 := sig.Params().At(np - 1).Type().(*types.Slice)
		es := f.sortOfT(st0.Elem())
		ss := f.w.sliceSort(es)
		arr := f.fresh("vararr", "(Array Int "+es+")")
		cur := arr
		n := 0
		for i := np - 1; i < len(args); i++ {
			cur = fmt.Sprintf("(store %s %d %s)", cur, n, args[i].S)
			n++
		}
		packed := Term{S: fmt.Sprintf("(mk_%s %d %s)", ss, n, cur), Sort: ss, GoT: st0}
		args = append(args[:np-1:np-1], packed)
	}
	if c, ok := f.w.contracts[key]; ok && c.Extern && len(c.Implementers) > 0 && recv != nil {
		return f.dispatchCall(st, c, fn, recv, args, call)
	}
	if c, ok := f.w.contracts[key]; ok {
		if c.Inline && f.w.funcs[key] != nil && f.inlineDepth < 4 {
			return f.inlineCall(st, f.w.funcs[key], recv, args, call)
		}
		return f.applyContract(st, c, fn, recv, args, f.site("call:"+fn.Name()), f.pos(call))
	}
	// no contract: trivial accessors (single return of a call-free expression) are inlined
	if fi := f.w.funcs[key]; fi != nil && f.inlineDepth < 4 {
		if f.isTrivialAccessor(fi) {
			return f.inlineCall(st, fi, recv, args, call)
		}
	}
	var rs []Term
	if fn.Pkg() != nil && (strings.Contains(fn.Pkg().Path(), "/antlr/parser/") || strings.Contains(fn.Pkg().Path(), "antlr4-go/antlr")) &&
		recv != nil && sig.Params().Len() == 0 && sig.Results().Len() == 1 {
		// T-ANTLR: a parse-tree accessor (ctx.GetText(), ctx.RuleName(), node.GetText() ...) is a function of the node: the tree is
		// immutable while the listener walks it. The symbol is antlr_<Method> (suffix _<sort> unless the result is a string/reference)
		rsort := f.sortOfT(sig.Results().At(0).Type())
		name := "antlr_" + fn.Name()
		if rsort != SStr && rsort != SInt {
			name += "_" + mangle(rsort)
		}
		f.declareFun(name, []string{SInt}, rsort)
		f.assumed["T-ANTLR: parse-tree accessors are functions of the node (the tree is immutable during the walk), effect-free, and do not panic on a non-nil node"] = true
		r := Term{S: "(" + name + " " + recv.S + ")", Sort: rsort, GoT: sig.Results().At(0).Type()}
		f.typeFacts(st, r)
		return []Term{r}
	}
	for i := 0; i < sig.Results().Len(); i++ {
		rs = append(rs, f.havocVal(st, "r_"+fn.Name(), sig.Results().At(i).Type()))
	}
	if fn.Pkg() != nil && strings.Contains(fn.Pkg().Path(), "/antlr/parser/") {
		// T-ANTLR: the generated parser/lexer and their context accessors are opaque (fresh results, no effect on verified state)
		f.assumed["T-ANTLR: generated parser context accessors ("+fn.Pkg().Name()+") are opaque and effect-free on verified state"] = true
		f.impure = append(f.impure, "calls generated parser code")
		return rs
	}
	if fn.Pkg() != nil && strings.HasPrefix(fn.Pkg().Path(), grulePath) {
		// uncontracted repository function: havoc everything, may panic
		f.w.warn("%s: call to uncontracted %s: all heap state havocked", shortName(f.key), shortName(key))
		f.assumed["uncontracted callee (heap havocked, may panic): "+shortName(key)] = true
		f.havocAll(st)
		f.panicFork(st, f.site("call:"+fn.Name()))
	} else {
		f.assumed["opaque external function (fresh result, no effect on verified state, no panic): "+shortName(key)] = true
		f.impure = append(f.impure, "calls opaque external "+shortName(key))
	}
	return rs
}

// exprOpaque evaluates an expression for its panic edges when possible; unsupported sub-expressions are ignored.
func (f *FuncCtx) exprOpaque(st *State, e ast.Expr) {
	defer func() {
		if r := recover(); r != nil {
			if _, ok := r.(unsupported); !ok {
				panic(r)
			}
		}
	}()
	f.expr(st, e)
}

func (f *FuncCtx) havocAll(st *State) {
	for _, h := range f.w.heapOrd {
		f.havocHeap(st, h)
	}
	for _, g := range f.w.ghostOrd {
		cur := f.ghostTerm(st, g)
		st.ghost[g] = Term{S: f.fresh("hg", cur.Sort), Sort: cur.Sort, GoT: cur.GoT}
	}
}

func (f *FuncCtx) conEnv(c *Contract, st, old *State, names map[string]Term) *CEnv {
	return &CEnv{f: f, st: st, old: old, names: names, pkgName: c.PkgName}
}

func (f *FuncCtx) applyContract(st *State, c *Contract, fn *types.Func, recv *Term, args []Term, site, pos string) []Term {
	f.usedCons[fn.FullName()] = true
	if !c.Pure && fn.FullName() != f.info.Obj.FullName() {
		f.impure = append(f.impure, "calls "+shortName(fn.FullName())+" which is not declared isfunc")
	}
	sig := fn.Type().(*types.Signature)
	names := map[string]Term{}
	if c.RecvName != "" && recv != nil {
		r := *recv
		if sig.Recv() != nil {
			r.GoT = sig.Recv().Type()
		}
		names[c.RecvName] = r
	}
	for i, p := range c.Params {
		if i < len(args) {
			a := args[i]
			a.GoT = sig.Params().At(i).Type()
			names[p] = a
		}
	}
	short := fn.Name()
	for _, rq := range c.Requires {
		env := f.conEnv(c, st, nil, names)
		g := env.boolT(rq.Expr)
		id := fmt.Sprintf("pre(%s.%d)@%s", short, rq.N, site)
		if rq.Label != "" {
			id = fmt.Sprintf("pre(%s.%s)@%s", short, rq.Label, site)
		}
		f.oblige(st, g, id, "pre", rq.Text, rq.Props, pos)
		st.assume(g)
	}
	old := st.clone()
	for _, ga := range c.GhostEntry {
		env := f.conEnv(c, st, old, names)
		cur := f.ghostTerm(st, ga.Target)
		v := env.coerceLit(env.tr(ga.Expr), cur.Sort)
		st.ghost[ga.Target] = Term{S: v.S, Sort: cur.Sort, GoT: cur.GoT}
	}
	if c.ModAll {
		// `modifies *` = every heap location; ghost state only when listed explicitly
		for _, h := range f.w.heapOrd {
			f.havocHeap(st, h)
		}
	}
	for _, m := range c.Modifies {
		hs, gs := f.resolveMod(c, m)
		for _, h := range hs {
			if strings.HasPrefix(h, "fresh:") {
				h = strings.TrimPrefix(h, "fresh:")
				al := f.heapTerm(old, "alloc", "(Array Int Bool)")
				if st.pending == nil {
					st.pending = map[string][]string{}
				}
				st.pending[h] = append(st.pending[h], al)
				continue
			}
			f.havocHeap(st, h)
		}
		for _, g := range gs {
			cur := f.ghostTerm(st, g)
			st.ghost[g] = Term{S: f.fresh("cg_"+strings.TrimPrefix(g, "$"), cur.Sort), Sort: cur.Sort, GoT: cur.GoT}
		}
	}
	var rs []Term
	for i := 0; i < sig.Results().Len(); i++ {
		r := f.havocVal(st, "r_"+short, sig.Results().At(i).Type())
		rs = append(rs, r)
		if i < len(c.Results) {
			names[c.Results[i]] = r
		}
	}
	if !c.NoPanic {
		p := st.clone()
		for _, pe := range c.PanicEns {
			env := f.conEnv(c, p, old, names)
			p.assume(env.boolT(pe.Expr))
		}
		if c.PanicsOnly != nil {
			env := f.conEnv(c, old, nil, names)
			p.assume(env.boolT(c.PanicsOnly))
		}
		f.panicFork(p, site)
	}
	for _, en := range c.Ensures {
		if en.CheckOnly {
			continue
		}
		env := f.conEnv(c, st, old, names)
		fact := env.boolT(en.Expr)
		if len(en.Props) > 0 {
			// a tagged postcondition is only brought into queries of obligations sharing a tag (keeps unrelated quantifiers out)
			fact = "#tags:" + strings.Join(en.Props, ",") + "# " + fact
		}
		st.assume(fact)
	}
	if c.Pure {
		// deterministic function of its arguments: name the results by function symbols
		var as, sorts []string
		if recv != nil {
			as, sorts = append(as, recv.S), append(sorts, recv.Sort)
		}
		for _, a := range args {
			as, sorts = append(as, a.S), append(sorts, a.Sort)
		}
		for i, r := range rs {
			isErr := namedPath(sig.Results().At(i).Type()) == "" && types.Identical(sig.Results().At(i).Type(), types.Universe.Lookup("error").Type())
			if isErr {
				fnn := "fnok_" + short
				f.declareFun(fnn, sorts, SBool)
				st.assume("(= (= " + r.S + " 0) (" + fnn + " " + strings.Join(as, " ") + "))")
			} else {
				fnn := fmt.Sprintf("fn_%s_%d", short, i)
				f.declareFun(fnn, sorts, r.Sort)
				st.assume("(= " + r.S + " (" + fnn + " " + strings.Join(as, " ") + "))")
			}
		}
	}
	for _, ga := range c.GhostExit {
		env := f.conEnv(c, st, old, names)
		cur := f.ghostTerm(st, ga.Target)
		v := env.coerceLit(env.tr(ga.Expr), cur.Sort)
		st.ghost[ga.Target] = Term{S: v.S, Sort: cur.Sort, GoT: cur.GoT}
	}
	return rs
}

// inlineLit executes an immediately invoked function literal without parameters/results.
func (f *FuncCtx) inlineLit(st *State, fl *ast.FuncLit, call *ast.CallExpr) []Term {
	if len(call.Args) > 0 || (fl.Type.Results != nil && len(fl.Type.Results.List) > 0) {
		unsup("function literal call with arguments/results at %s", f.pos(call))
	}
	flow := f.block(st, fl.Body.List)
	f.pend = append(f.pend, flow.Panics...)
	outs := []*State{flow.Normal}
	outs = append(outs, flow.Returns...)
	m := f.merge(outs)
	if m == nil {
		st.assume("false")
		return nil
	}
	*st = *m
	return nil
}

func (f *FuncCtx) builtin(st *State, call *ast.CallExpr, name string) []Term {
	switch name {
	case "len", "cap":
		a := f.expr(st, call.Args[0])
		t := types.Unalias(f.typeOf(call.Args[0]))
		rt := f.typeOf(call)
		switch u := t.Underlying().(type) {
		case *types.Basic:
			return []Term{{S: "(str_len " + a.S + ")", Sort: SInt, GoT: rt}}
		case *types.Slice, *types.Array:
			return []Term{{S: "(len_" + a.Sort + " " + a.S + ")", Sort: SInt, GoT: rt}}
		case *types.Map:
			_, _, ln := f.w.mapHeapsT(u, f.bv)
			r := Term{S: "(ite (= " + a.S + " 0) 0 (select " + f.heapTerm(st, ln, f.w.heapSorts[ln]) + " " + a.S + "))", Sort: SInt, GoT: rt}
			r = f.defineAlways(st, "maplen", r)
			st.assume("(>= " + r.S + " 0)")
			return []Term{r}
		}
	case "append":
		s := f.expr(st, call.Args[0])
		if call.Ellipsis.IsValid() {
			// append(a, b...): a slice of length len(a)+len(b) whose first len(a) elements are a's; the appended part is left
			// unconstrained (no caller reasons about it). Its amortised growth is NOT counted in $allocated (T-ALLOC: Go's
			// append allocates a constant factor of the final length in total)
			if len(call.Args) != 2 {
				unsup("append with ... and %d arguments at %s", len(call.Args), f.pos(call))
			}
			b := f.expr(st, call.Args[1])
			if b.Sort != s.Sort {
				unsup("append(a, b...) with different element sorts at %s", f.pos(call))
			}
			use(f, "append(a, b...) yields a slice of length len(a)+len(b) that starts with a; its amortised allocation is not counted (T-ALLOC)")
			r := f.fresh("appv", s.Sort)
			la, lb := "(len_"+s.Sort+" "+s.S+")", "(len_"+b.Sort+" "+b.S+")"
			st.assume("(= (len_" + s.Sort + " " + r + ") (+ " + la + " " + lb + "))")
			return []Term{{S: r, Sort: s.Sort, GoT: s.GoT}}
		}
		st0 := types.Unalias(f.typeOf(call.Args[0])).Underlying().(*types.Slice)
		cur := s
		for _, a := range call.Args[1:] {
			v := f.implicit(st, f.expr(st, a), f.typeOf(a), st0.Elem())
			ln := "(len_" + cur.Sort + " " + cur.S + ")"
			cur = Term{S: "(mk_" + cur.Sort + " (+ " + ln + " 1) (store (arr_" + cur.Sort + " " + cur.S + ") " + ln + " " + v.S + "))", Sort: cur.Sort, GoT: s.GoT}
			cur = f.define(st, "app", cur)
		}
		return []Term{cur}
	case "make":
		t := types.Unalias(f.tinfo().TypeOf(call.Args[0]))
		switch u := t.Underlying().(type) {
		case *types.Map:
			return []Term{f.makeMap(st, t, u)}
		case *types.Slice:
			es := f.sortOfT(u.Elem())
			ss := f.w.sliceSort(es)
			n := f.expr(st, call.Args[1])
			f.panicIf(st, "(< "+n.S+" 0)", f.site("makeneg"))
			z := f.zero(u.Elem())
			// what make() allocates is the CAPACITY when one is given (make([]T, 0, n) allocates n elements)
			sz := n
			if len(call.Args) > 2 {
				sz = f.expr(st, call.Args[2])
				f.panicIf(st, "(< "+sz.S+" "+n.S+")", f.site("makecap"))
			}
			if _, declared := f.w.ghosts["$allocated"]; declared {
				cur := f.ghostTerm(st, "$allocated")
				st.ghost["$allocated"] = Term{S: "(+ " + cur.S + " " + sz.S + ")", Sort: SInt}
			}
			return []Term{{S: "(mk_" + ss + " " + n.S + " ((as const (Array Int " + es + ")) " + z.S + "))", Sort: ss, GoT: t}}
		}
		unsup("make(%s) at %s", t, f.pos(call))
	case "new":
		t := types.Unalias(f.tinfo().TypeOf(call.Args[0]))
		pt := types.NewPointer(t)
		if named, ok := t.(*types.Named); ok {
			if s, ok := named.Underlying().(*types.Struct); ok {
				ref := f.allocRef(st, "new_"+named.Obj().Name(), pt)
				for _, fp := range f.flatFields(s, "") {
					func() {
						defer func() {
							if r := recover(); r != nil {
								if _, ok := r.(unsupported); !ok {
									panic(r)
								}
							}
						}()
						hn, hs := f.w.fieldHeap(named, fp.path, fp.typ, f.bv)
						f.heapStore(st, hn, hs, ref.S, f.zero(fp.typ).S)
					}()
				}
				return []Term{ref}
			}
		}
		ref := f.allocRef(st, "newp", pt)
		es := f.sortOfT(t)
		f.heapStore(st, "Hptr_"+mangle(es), "(Array Int "+es+")", ref.S, f.zero(t).S)
		return []Term{ref}
	case "delete":
		m := f.expr(st, call.Args[0])
		u := types.Unalias(f.typeOf(call.Args[0])).Underlying().(*types.Map)
		k := f.implicit(st, f.expr(st, call.Args[1]), f.typeOf(call.Args[1]), u.Key())
		f.mapDelete(st, m, u, k)
		return nil
	case "recover":
		return []Term{{S: f.recoverT, Sort: SInt, GoT: f.typeOf(call)}}
	case "copy":
		unsup("copy at %s", f.pos(call))
	}
	unsup("builtin %s at %s", name, f.pos(call))
	return nil
}

// isTrivialAccessor: the body is a single `return e` (or a single assignment to a field) without calls or loops.
func (f *FuncCtx) isTrivialAccessor(fi *FuncInfo) bool {
	if len(fi.Decl.Body.List) != 1 {
		return false
	}
	ok := true
	ast.Inspect(fi.Decl.Body, func(n ast.Node) bool {
		switch n.(type) {
		case *ast.CallExpr, *ast.ForStmt, *ast.RangeStmt, *ast.FuncLit, *ast.DeferStmt, *ast.GoStmt:
			ok = false
		}
		return ok
	})
	if !ok {
		return false
	}
	switch fi.Decl.Body.List[0].(type) {
	case *ast.ReturnStmt, *ast.AssignStmt:
		return true
	}
	return false
}

// inlineCall executes the callee's body in place (no loops with invariants, no defers).
func (f *FuncCtx) inlineCall(st *State, fi *FuncInfo, recv *Term, args []Term, call *ast.CallExpr) []Term {
	saved := *f
	defer func() {
		// restore per-function context but keep accumulated results
		f.info, f.results, f.retOrd, f.deferred, f.inlineDepth, f.recvVar = saved.info, saved.results, saved.retOrd, saved.deferred, saved.inlineDepth, saved.recvVar
	}()
	f.info = fi
	f.inlineDepth++
	f.results = nil
	f.retOrd = map[ast.Node]int{}
	tinfo := fi.Pkg.TypesInfo
	sig := fi.Obj.Type().(*types.Signature)
	if fi.Decl.Recv != nil && len(fi.Decl.Recv.List) > 0 && len(fi.Decl.Recv.List[0].Names) > 0 && recv != nil {
		rv := tinfo.Defs[fi.Decl.Recv.List[0].Names[0]].(*types.Var)
		r := *recv
		if !strings.HasPrefix(r.Sort, "Path:") {
			r.GoT = rv.Type()
		}
		st.vars[rv] = r
	}
	pi := 0
	for _, fld := range fi.Decl.Type.Params.List {
		for _, n := range fld.Names {
			if n.Name != "_" && pi < len(args) {
				v := tinfo.Defs[n].(*types.Var)
				a := args[pi]
				a.GoT = v.Type()
				st.vars[v] = a
			}
			pi++
		}
		if len(fld.Names) == 0 {
			pi++
		}
	}
	if fi.Decl.Type.Results != nil {
		for _, fld := range fi.Decl.Type.Results.List {
			for _, n := range fld.Names {
				if n.Name == "_" {
					continue
				}
				v := tinfo.Defs[n].(*types.Var)
				f.results = append(f.results, v)
				st.vars[v] = f.zero(v.Type())
			}
		}
	}
	ast.Inspect(fi.Decl.Body, func(n ast.Node) bool {
		switch n.(type) {
		case *ast.ForStmt, *ast.RangeStmt, *ast.DeferStmt:
			unsup("inlined function %s contains a loop or defer", fi.Obj.Name())
		}
		return true
	})
	flow := f.block(st, fi.Decl.Body.List)
	f.pend = append(f.pend, flow.Panics...)
	outs := flow.Returns
	if flow.Normal != nil {
		flow.Normal.ret = nil
		outs = append(outs, flow.Normal)
	}
	// carry return values through the merge in synthetic variables
	var tmp []*types.Var
	for i := 0; i < sig.Results().Len(); i++ {
		tmp = append(tmp, types.NewVar(call.Pos(), fi.Pkg.Types, fmt.Sprintf("ret%d", i), sig.Results().At(i).Type()))
	}
	for _, o := range outs {
		for i, tv := range tmp {
			if i < len(o.ret) {
				o.vars[tv] = o.ret[i]
			}
		}
	}
	m := f.merge(outs)
	if m == nil {
		st.assume("false")
		var rs []Term
		for i := 0; i < sig.Results().Len(); i++ {
			rs = append(rs, f.zero(sig.Results().At(i).Type()))
		}
		return rs
	}
	var rs []Term
	for _, tv := range tmp {
		rs = append(rs, m.vars[tv])
		delete(m.vars, tv)
	}
	m.ret = nil
	*st = *m
	return rs
}

// dispatchCall: a call through an interface whose contract lists its implementers (closed world, re-checked against the type
// checker on every run) is analysed by cases on the dynamic type: in each case the IMPLEMENTER's contract is applied - its
// precondition is an obligation under that case - and the cases are merged. The interface contract's own clauses are not used.
func (f *FuncCtx) dispatchCall(st *State, c *Contract, fn *types.Func, recv *Term, args []Term, call *ast.CallExpr) []Term {
	f.usedCons[fn.FullName()] = true
	sig := fn.Type().(*types.Signature)
	byShort := f.w.shortIndex()
	var rs []Term
	for i := 0; i < sig.Results().Len(); i++ {
		rs = append(rs, f.havocVal(st, "r_"+fn.Name(), sig.Results().At(i).Type()))
	}
	f.assumed["closed world: a value of interface type "+types.TypeString(sig.Recv().Type(), nil)+" has one of the listed implementing types (list checked against the type checker on every run)"] = true
	var outs []*State
	for n, it := range c.Implementers {
		ik, ok := byShort[it]
		ic := f.w.contracts[ik]
		ifi := f.w.funcs[ik]
		if !ok || ic == nil || ifi == nil {
			unsup("implementer %s of %s has no contract", it, shortName(fn.FullName()))
		}
		b := st.clone()
		irt := ifi.Obj.Type().(*types.Signature).Recv().Type()
		b.assume(fmt.Sprintf("(= (dyntype %s) %d)", recv.S, f.w.typeID(irt)))
		r := *recv
		r.GoT = irt
		res := f.applyContract(b, ic, ifi.Obj, &r, args, f.site(fmt.Sprintf("call:%s/%d", fn.Name(), n+1)), f.pos(call))
		for i := range rs {
			if i < len(res) {
				b.assume("(= " + rs[i].S + " " + res[i].S + ")")
			}
		}
		outs = append(outs, b)
	}
	m := f.merge(outs)
	if m == nil {
		st.assume("false")
		return rs
	}
	*st = *m
	return rs
}

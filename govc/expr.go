package main

// Go expressions -> SMT terms (with panic edges and side effects on the state).

import (
	"fmt"
	"go/ast"
	"go/constant"
	"go/token"
	"go/types"
	"math"
	"math/big"
	"strings"
)

func mathFloat64bits(f float64) uint64 { return math.Float64bits(f) }

func (f *FuncCtx) tinfo() *types.Info { return f.info.Pkg.TypesInfo }

func (f *FuncCtx) typeOf(e ast.Expr) types.Type {
	t := f.tinfo().TypeOf(e)
	if t == nil {
		unsup("no type for expression at %s", f.pos(e))
	}
	return t
}

func (f *FuncCtx) sortOfT(t types.Type) Sort { return f.w.sortOf(t, f.bv) }

func (f *FuncCtx) constTerm(v constant.Value, t types.Type) Term {
	s := f.sortOfT(t)
	switch v.Kind() {
	case constant.Bool:
		return Term{S: fmt.Sprint(constant.BoolVal(v)), Sort: SBool, GoT: t}
	case constant.String:
		return Term{S: f.w.strLit(constant.StringVal(v)), Sort: SStr, GoT: t}
	case constant.Int:
		bi, _ := new(big.Int).SetString(v.ExactString(), 10)
		switch s {
		case SBV64:
			return Term{S: bvLit(bi), Sort: SBV64, GoT: t}
		case SF64:
			fl, _ := new(big.Float).SetInt(bi).Float64()
			return Term{S: fpLit(fl), Sort: SF64, GoT: t}
		default:
			return Term{S: intLitSMT(bi), Sort: SInt, GoT: t}
		}
	case constant.Float:
		fl, _ := constant.Float64Val(v)
		if s == SF64 {
			return Term{S: fpLit(fl), Sort: SF64, GoT: t}
		}
		if s == SInt || s == SBV64 {
			if i, ok := constant.Int64Val(constant.ToInt(v)); ok {
				bi := big.NewInt(i)
				if s == SBV64 {
					return Term{S: bvLit(bi), Sort: SBV64, GoT: t}
				}
				return Term{S: intLitSMT(bi), Sort: SInt, GoT: t}
			}
		}
	}
	unsup("constant %s of type %s", v.String(), t.String())
	return Term{}
}

func (f *FuncCtx) zero(t types.Type) Term {
	s := f.sortOfT(t)
	gt := t
	switch {
	case s == SBool:
		return Term{S: "false", Sort: s, GoT: gt}
	case s == SInt:
		return Term{S: "0", Sort: s, GoT: gt}
	case s == SBV64:
		return Term{S: "(_ bv0 64)", Sort: s, GoT: gt}
	case s == SF64:
		return Term{S: fpLit(0), Sort: s, GoT: gt}
	case s == SStr:
		return Term{S: f.w.strLit(""), Sort: s, GoT: gt}
	case s == SRV:
		return Term{S: "rv_zero", Sort: s, GoT: gt}
	case s == STime:
		return Term{S: "time_zero", Sort: s, GoT: gt}
	case strings.HasPrefix(s, "Slice_"):
		return Term{S: "nil_" + s, Sort: s, GoT: gt}
	}
	unsup("zero value of sort %s", s)
	return Term{}
}

// typing facts for a freshly introduced value of Go type t
func (f *FuncCtx) typeFacts(st *State, t Term) {
	if t.GoT == nil {
		return
	}
	if strings.HasPrefix(t.Sort, "Slice_") {
		st.assume("(and (>= (len_" + t.Sort + " " + t.S + ") 0) (<= (len_" + t.Sort + " " + t.S + ") 4611686018427387904))")
		return
	}
	if bits, signed, ok := intInfo(t.GoT); ok && namedPath(t.GoT) != "reflect.Kind" {
		if t.Sort == SInt {
			if !signed {
				st.assume("(>= " + t.S + " 0)")
			}
		} else if t.Sort == SBV64 && bits < 64 {
			st.assume("(= " + t.S + " " + f.normBV(t.S, bits, signed) + ")")
		}
	}
	if f.useAlloc && t.Sort == SInt {
		switch types.Unalias(t.GoT).Underlying().(type) {
		case *types.Pointer, *types.Map:
			st.assume("(or (= " + t.S + " 0) (select " + f.heapTerm(st, "alloc", "(Array Int Bool)") + " " + t.S + "))")
		}
	}
}

func (f *FuncCtx) normBV(x string, bits int, signed bool) string {
	if bits >= 64 {
		return x
	}
	ext := "zero_extend"
	if signed {
		ext = "sign_extend"
	}
	return fmt.Sprintf("((_ %s %d) ((_ extract %d 0) %s))", ext, 64-bits, bits-1, x)
}

func (f *FuncCtx) havocVal(st *State, hint string, t types.Type) Term {
	s := f.sortOfT(t)
	c := Term{S: f.fresh(hint, s), Sort: s, GoT: t}
	f.typeFacts(st, c)
	return c
}

// pureSafe reports whether evaluating e cannot panic and has no side effects (syntactic approximation).
func (f *FuncCtx) pureSafe(e ast.Expr) bool {
	ok := true
	ast.Inspect(e, func(n ast.Node) bool {
		switch x := n.(type) {
		case *ast.CallExpr:
			if tv, has := f.tinfo().Types[x.Fun]; has && tv.IsType() {
				return true
			}
			if id, isId := x.Fun.(*ast.Ident); isId && (id.Name == "len" || id.Name == "cap") {
				return true
			}
			ok = false
		case *ast.SelectorExpr:
			if sel := f.tinfo().Selections[x]; sel != nil {
				ok = false
			}
		case *ast.IndexExpr, *ast.StarExpr, *ast.TypeAssertExpr, *ast.SliceExpr:
			ok = false
		case *ast.BinaryExpr:
			if x.Op == token.QUO || x.Op == token.REM {
				ok = false
			}
		}
		return ok
	})
	return ok
}

func (f *FuncCtx) expr(st *State, e ast.Expr) Term {
	if tv, ok := f.tinfo().Types[e]; ok && tv.Value != nil {
		return f.constTerm(tv.Value, tv.Type)
	}
	switch x := e.(type) {
	case *ast.ParenExpr:
		return f.expr(st, x.X)
	case *ast.Ident:
		return f.ident(st, x)
	case *ast.BasicLit:
		unsup("literal without constant value at %s", f.pos(e))
	case *ast.SelectorExpr:
		return f.selector(st, x)
	case *ast.CallExpr:
		rs := f.call(st, x)
		if len(rs) != 1 {
			unsup("call in single-value context returns %d values at %s", len(rs), f.pos(e))
		}
		return rs[0]
	case *ast.UnaryExpr:
		return f.unary(st, x)
	case *ast.BinaryExpr:
		return f.binary(st, x)
	case *ast.IndexExpr:
		v, _ := f.indexRead(st, x, false)
		return v
	case *ast.StarExpr:
		p := f.expr(st, x.X)
		f.panicIf(st, "(= "+p.S+" 0)", f.site("deref"))
		et := f.typeOf(e)
		es := f.sortOfT(et)
		hn := "Hptr_" + mangle(es)
		return Term{S: "(select " + f.heapTerm(st, hn, "(Array Int "+es+")") + " " + p.S + ")", Sort: es, GoT: et}
	case *ast.CompositeLit:
		return f.composite(st, x, false)
	case *ast.TypeAssertExpr:
		v, _ := f.typeAssert(st, x, false)
		return v
	case *ast.SliceExpr:
		return f.sliceExpr(st, x)
	case *ast.FuncLit:
		unsup("function literal used as a value at %s", f.pos(e))
	}
	unsup("expression %T at %s", e, f.pos(e))
	return Term{}
}

func (f *FuncCtx) ident(st *State, x *ast.Ident) Term {
	obj := f.tinfo().Uses[x]
	if obj == nil {
		obj = f.tinfo().Defs[x]
	}
	switch o := obj.(type) {
	case *types.Nil:
		return Term{S: "0", Sort: SInt}
	case *types.Var:
		if t, ok := st.vars[o]; ok {
			return t
		}
		if o.Parent() == o.Pkg().Scope() {
			return f.readGlobal(st, o)
		}
		unsup("variable %s not in state at %s", o.Name(), f.pos(x))
	case *types.Const:
		return f.constTerm(o.Val(), o.Type())
	}
	unsup("identifier %s (%T) at %s", x.Name, obj, f.pos(x))
	return Term{}
}

// lvalue of a field selection: (reference term, owner named struct, dotted path, field type)
func (f *FuncCtx) fieldLoc(st *State, x *ast.SelectorExpr) (ref Term, owner *types.Named, path string, ft types.Type) {
	sel := f.tinfo().Selections[x]
	if sel == nil || sel.Kind() != types.FieldVal {
		unsup("not a field selection at %s", f.pos(x))
	}
	xt := types.Unalias(f.typeOf(x.X))
	var st0 *types.Struct
	basePath := ""
	// receiver of an inlined method called on an embedded (by-value) struct: a pseudo-term (object ref + field-path prefix)
	if id, ok := ast.Unparen(x.X).(*ast.Ident); ok {
		if v, ok := f.tinfo().Uses[id].(*types.Var); ok {
			if t, ok := st.vars[v]; ok && strings.HasPrefix(t.Sort, "Path:") {
				ref = Term{S: t.S, Sort: SInt}
				owner, _ = derefStruct(t.GoT)
				_, st0 = derefStruct(xt)
				basePath = strings.TrimPrefix(t.Sort, "Path:") + "."
				if owner == nil || st0 == nil {
					unsup("embedded receiver at %s", f.pos(x))
				}
				cur := st0
				var names []string
				for i, idx := range sel.Index() {
					fv := cur.Field(idx)
					names = append(names, fv.Name())
					ft = fv.Type()
					if i < len(sel.Index())-1 {
						ns, ok := types.Unalias(fv.Type()).Underlying().(*types.Struct)
						if !ok {
							unsup("promotion through pointer-embedded field at %s", f.pos(x))
						}
						cur = ns
					}
				}
				path = basePath + strings.Join(names, ".")
				return
			}
		}
	}
	if p, ok := xt.Underlying().(*types.Pointer); ok {
		ref = f.expr(st, x.X)
		f.panicIf(st, "(= "+ref.S+" 0)", f.site("nilderef"))
		owner, st0 = derefStruct(p)
		if owner == nil {
			n, _ := types.Unalias(p.Elem()).(*types.Named)
			unsup("pointer to non-struct %v at %s", n, f.pos(x))
		}
	} else if _, ok := xt.Underlying().(*types.Struct); ok {
		// by-value struct: must itself be a field selection
		inner, ok := ast.Unparen(x.X).(*ast.SelectorExpr)
		if !ok {
			unsup("field of a struct value that is not a field at %s", f.pos(x))
		}
		var ift types.Type
		ref, owner, basePath, ift = f.fieldLoc(st, inner)
		st0, _ = types.Unalias(ift).Underlying().(*types.Struct)
		basePath += "."
	} else {
		unsup("selector base type %s at %s", xt, f.pos(x))
	}
	cur := st0
	var names []string
	for i, idx := range sel.Index() {
		fv := cur.Field(idx)
		names = append(names, fv.Name())
		ft = fv.Type()
		if i < len(sel.Index())-1 {
			ns, ok := types.Unalias(fv.Type()).Underlying().(*types.Struct)
			if !ok {
				// promotion through a pointer-embedded field: load the embedded pointer and continue in the pointee
				pt, isPtr := types.Unalias(fv.Type()).Underlying().(*types.Pointer)
				var pOwner *types.Named
				var pSt *types.Struct
				if isPtr {
					pOwner, pSt = derefStruct(pt)
				}
				if pOwner == nil || pSt == nil {
					unsup("promotion through pointer-embedded field at %s", f.pos(x))
				}
				hn, hs := f.w.fieldHeap(owner, basePath+strings.Join(names, "."), fv.Type(), f.bv)
				f.impure = append(f.impure, "reads heap field "+hn)
				nref := Term{S: "(select " + f.heapTerm(st, hn, hs) + " " + ref.S + ")", Sort: SInt, GoT: fv.Type()}
				f.panicIf(st, "(= "+nref.S+" 0)", f.site("nilderef"))
				ref, owner, basePath, names = nref, pOwner, "", nil
				ns = pSt
			}
			cur = ns
		}
	}
	path = basePath + strings.Join(names, ".")
	return
}

func (f *FuncCtx) selector(st *State, x *ast.SelectorExpr) Term {
	sel := f.tinfo().Selections[x]
	if sel == nil {
		obj := f.tinfo().Uses[x.Sel]
		switch o := obj.(type) {
		case *types.Var:
			return f.readGlobal(st, o)
		case *types.Const:
			return f.constTerm(o.Val(), o.Type())
		}
		unsup("qualified identifier %s at %s", x.Sel.Name, f.pos(x))
	}
	if sel.Kind() != types.FieldVal {
		unsup("method value at %s", f.pos(x))
	}
	if n, ok := types.Unalias(f.typeOf(x.X)).(*types.Named); ok && isLoggerPkg(n.Obj().Pkg()) {
		// configuration of a logger (e.g. AstLog.Level): T-LOG, an arbitrary value
		f.assumed["T-LOG: logger calls have no effect on verified state and do not panic"] = true
		return f.havocVal(st, "logcfg", f.typeOf(x))
	}
	ref, owner, path, ft := f.fieldLoc(st, x)
	hn, hs := f.w.fieldHeap(owner, path, ft, f.bv)
	f.impure = append(f.impure, "reads heap field "+hn)
	es := hs[len("(Array Int ") : len(hs)-1]
	t := Term{S: "(select " + f.heapTerm(st, hn, hs) + " " + ref.S + ")", Sort: es, GoT: ft}
	if strings.HasPrefix(es, "Slice_") || f.useAlloc {
		t = f.defineAlways(st, "rd_"+path, t)
		f.typeFacts(st, t)
	} else if _, signed, ok := intInfo(ft); ok && !signed && es == SInt {
		st.assume("(>= " + t.S + " 0)")
	}
	return t
}

func (f *FuncCtx) defineAlways(st *State, hint string, t Term) Term {
	c := f.fresh(hint, t.Sort)
	st.assume("(= " + c + " " + t.S + ")")
	return Term{S: c, Sort: t.Sort, GoT: t.GoT}
}

func (f *FuncCtx) unary(st *State, x *ast.UnaryExpr) Term {
	switch x.Op {
	case token.NOT:
		a := f.expr(st, x.X)
		return Term{S: "(not " + a.S + ")", Sort: SBool, GoT: a.GoT}
	case token.SUB:
		a := f.expr(st, x.X)
		switch a.Sort {
		case SInt:
			return Term{S: "(- " + a.S + ")", Sort: SInt, GoT: a.GoT}
		case SBV64:
			return Term{S: "(bvneg " + a.S + ")", Sort: SBV64, GoT: a.GoT}
		case SF64:
			return Term{S: "(fp.neg " + a.S + ")", Sort: SF64, GoT: a.GoT}
		}
	case token.ADD:
		return f.expr(st, x.X)
	case token.AND:
		if cl, ok := ast.Unparen(x.X).(*ast.CompositeLit); ok {
			return f.composite(st, cl, true)
		}
		// address of a decode-target struct value (a local or a slice element): the reference that models it
		if valueStructs[namedPath(f.typeOf(x.X))] {
			switch y := ast.Unparen(x.X).(type) {
			case *ast.Ident:
				v := f.expr(st, y)
				return Term{S: v.S, Sort: SInt, GoT: f.typeOf(x)}
			case *ast.IndexExpr:
				v, _ := f.indexRead(st, y, false)
				return Term{S: v.S, Sort: SInt, GoT: f.typeOf(x)}
			}
		}
		unsup("address-of at %s", f.pos(x))
	case token.XOR:
		a := f.expr(st, x.X)
		if a.Sort == SBV64 {
			return Term{S: "(bvnot " + a.S + ")", Sort: SBV64, GoT: a.GoT}
		}
	}
	unsup("unary %s at %s", x.Op, f.pos(x))
	return Term{}
}

func (f *FuncCtx) binary(st *State, x *ast.BinaryExpr) Term {
	if x.Op == token.LAND || x.Op == token.LOR {
		a := f.expr(st, x.X)
		if f.pureSafe(x.Y) {
			b := f.expr(st, x.Y)
			op := "and"
			if x.Op == token.LOR {
				op = "or"
			}
			return Term{S: "(" + op + " " + a.S + " " + b.S + ")", Sort: SBool, GoT: f.typeOf(x)}
		}
		// fork: evaluate Y only when needed
		s1, s2 := st.clone(), st.clone()
		var short string
		if x.Op == token.LAND {
			s1.assume(a.S)
			s2.assume("(not " + a.S + ")")
			short = "false"
		} else {
			s1.assume("(not " + a.S + ")")
			s2.assume(a.S)
			short = "true"
		}
		b := f.expr(s1, x.Y)
		r := f.fresh("sc", SBool)
		s1.assume("(= " + r + " " + b.S + ")")
		s2.assume("(= " + r + " " + short + ")")
		m := f.merge([]*State{s1, s2})
		*st = *m
		return Term{S: r, Sort: SBool, GoT: f.typeOf(x)}
	}
	a := f.expr(st, x.X)
	b := f.expr(st, x.Y)
	return f.binop(st, x.Op, a, b, f.typeOf(x.X), f.typeOf(x), f.pos(x))
}

func (f *FuncCtx) binop(st *State, op token.Token, a, b Term, opndT, resT types.Type, pos string) Term {
	mk := func(fn string, rs Sort) Term {
		return Term{S: "(" + fn + " " + a.S + " " + b.S + ")", Sort: rs, GoT: resT}
	}
	if (op == token.EQL || op == token.NEQ) && a.Sort != b.Sort {
		// comparison of a slice with nil: an uninterpreted predicate that implies len == 0
		sl, other := a, b
		if strings.HasPrefix(b.Sort, "Slice_") {
			sl, other = b, a
		}
		if strings.HasPrefix(sl.Sort, "Slice_") && other.S == "0" {
			fn := "isnil_" + sl.Sort
			f.declareFun(fn, []string{sl.Sort}, SBool)
			st.assume("(=> (" + fn + " " + sl.S + ") (= (len_" + sl.Sort + " " + sl.S + ") 0))")
			t := "(" + fn + " " + sl.S + ")"
			if op == token.NEQ {
				t = "(not " + t + ")"
			}
			return Term{S: t, Sort: SBool, GoT: resT}
		}
	}
	switch op {
	case token.EQL:
		if a.Sort == SF64 {
			return mk("fp.eq", SBool)
		}
		return mk("=", SBool)
	case token.NEQ:
		if a.Sort == SF64 {
			return Term{S: "(not (fp.eq " + a.S + " " + b.S + "))", Sort: SBool, GoT: resT}
		}
		return Term{S: "(not (= " + a.S + " " + b.S + "))", Sort: SBool, GoT: resT}
	}
	if a.Sort != b.Sort && !(op == token.SHL || op == token.SHR) {
		unsup("binary %s on sorts %s,%s at %s", op, a.Sort, b.Sort, pos)
	}
	bits, signed, _ := intInfo(opndT)
	switch a.Sort {
	case SInt:
		switch op {
		case token.ADD:
			return mk("+", SInt)
		case token.SUB:
			return mk("-", SInt)
		case token.MUL:
			return mk("*", SInt)
		case token.QUO:
			f.panicIf(st, "(= "+b.S+" 0)", f.site("divzero"))
			return mk("go_div", SInt)
		case token.REM:
			f.panicIf(st, "(= "+b.S+" 0)", f.site("divzero"))
			return mk("go_mod", SInt)
		case token.LSS:
			return mk("<", SBool)
		case token.LEQ:
			return mk("<=", SBool)
		case token.GTR:
			return mk(">", SBool)
		case token.GEQ:
			return mk(">=", SBool)
		}
	case SBV64:
		norm := func(t Term) Term {
			if bits < 64 && bits > 0 {
				t.S = f.normBV(t.S, bits, signed)
			}
			return t
		}
		switch op {
		case token.ADD:
			return norm(mk("bvadd", SBV64))
		case token.SUB:
			return norm(mk("bvsub", SBV64))
		case token.MUL:
			return norm(mk("bv_mul", SBV64))
		case token.QUO:
			f.panicIf(st, "(= "+b.S+" (_ bv0 64))", f.site("divzero"))
			if signed {
				return norm(mk("bv_sdiv", SBV64))
			}
			return mk("bv_udiv", SBV64)
		case token.REM:
			f.panicIf(st, "(= "+b.S+" (_ bv0 64))", f.site("divzero"))
			if signed {
				return mk("bv_srem", SBV64)
			}
			return mk("bv_urem", SBV64)
		case token.AND:
			return mk("bvand", SBV64)
		case token.OR:
			return mk("bvor", SBV64)
		case token.XOR:
			return mk("bvxor", SBV64)
		case token.AND_NOT:
			return Term{S: "(bvand " + a.S + " (bvnot " + b.S + "))", Sort: SBV64, GoT: resT}
		case token.SHL:
			return norm(mk("bvshl", SBV64))
		case token.SHR:
			if signed {
				return mk("bvashr", SBV64)
			}
			return mk("bvlshr", SBV64)
		case token.LSS, token.LEQ, token.GTR, token.GEQ:
			m := map[token.Token]string{token.LSS: "lt", token.LEQ: "le", token.GTR: "gt", token.GEQ: "ge"}
			p := "bvu"
			if signed {
				p = "bvs"
			}
			return mk(p+m[op], SBool)
		}
	case SF64:
		switch op {
		case token.ADD, token.SUB, token.MUL, token.QUO:
			m := map[token.Token]string{token.ADD: "f_add", token.SUB: "f_sub", token.MUL: "f_mul", token.QUO: "f_div"}
			t := Term{S: "(" + m[op] + " " + a.S + " " + b.S + ")", Sort: SF64, GoT: resT}
			if isFloat32(resT) {
				t.S = "((_ to_fp 11 53) RNE ((_ to_fp 8 24) RNE " + t.S + "))"
			}
			return t
		case token.LSS:
			return mk("fp.lt", SBool)
		case token.LEQ:
			return mk("fp.leq", SBool)
		case token.GTR:
			return mk("fp.gt", SBool)
		case token.GEQ:
			return mk("fp.geq", SBool)
		}
	case SStr:
		switch op {
		case token.ADD:
			return Term{S: strCat(a.S, b.S), Sort: SStr, GoT: resT}
		case token.LSS:
			return mk("str_lt", SBool)
		case token.GTR:
			return Term{S: "(str_lt " + b.S + " " + a.S + ")", Sort: SBool, GoT: resT}
		case token.LEQ:
			return Term{S: "(not (str_lt " + b.S + " " + a.S + "))", Sort: SBool, GoT: resT}
		case token.GEQ:
			return Term{S: "(not (str_lt " + a.S + " " + b.S + "))", Sort: SBool, GoT: resT}
		}
	case SBool:
		switch op {
		case token.AND:
			return mk("and", SBool)
		case token.OR:
			return mk("or", SBool)
		}
	}
	unsup("binary %s on sort %s at %s", op, a.Sort, pos)
	return Term{}
}

func isFloat32(t types.Type) bool {
	b, ok := types.Unalias(t).Underlying().(*types.Basic)
	return ok && b.Kind() == types.Float32
}

// ---------- conversions ----------

func (f *FuncCtx) convert(st *State, v Term, from, to types.Type, pos string) Term {
	to = types.Unalias(to)
	ts := f.sortOfT(to)
	fs := v.Sort
	out := Term{S: v.S, Sort: ts, GoT: to}
	if _, isIface := to.Underlying().(*types.Interface); isIface {
		return f.toIface(st, v, from)
	}
	fbits, fsigned, fint := intInfo(from)
	tbits, tsigned, tint := intInfo(to)
	switch {
	case fs == ts && fint && tint && ts == SBV64:
		if tbits < 64 && (tbits < fbits || tsigned != fsigned) {
			out.S = f.normBV(v.S, tbits, tsigned)
		}
		return out
	case fs == ts && fint && tint && ts == SInt:
		// mathematical integers: widening is the identity; narrowing and sign changes wrap exactly as Go does
		if namedPath(to) == "reflect.Kind" || namedPath(from) == "reflect.Kind" {
			return out
		}
		if tbits < fbits || (tbits == fbits && tsigned != fsigned) {
			m := new(big.Int).Lsh(big.NewInt(1), uint(tbits)).String()
			if tsigned {
				out.S = "(wrap_s " + v.S + " " + m + ")"
			} else {
				out.S = "(wrap_u " + v.S + " " + m + ")"
			}
		}
		return out
	case fs == ts && fs == SF64:
		if isFloat32(to) && !isFloat32(from) {
			out.S = "((_ to_fp 11 53) RNE ((_ to_fp 8 24) RNE " + v.S + "))"
		}
		return out
	case fs == ts:
		return out
	case fs == SBV64 && ts == SF64:
		fn := "to_fp_unsigned"
		out.S = "(bv2f_u " + v.S + ")"
		if fsigned {
			fn = "to_fp"
			out.S = "(bv2f_s " + v.S + ")"
		}
		if isFloat32(to) {
			out.S = "((_ to_fp 11 53) RNE ((_ " + fn + " 8 24) RNE " + v.S + "))"
		}
		return out
	case fs == SF64 && ts == SBV64:
		fn := "fp.to_ubv"
		if tsigned {
			fn = "fp.to_sbv"
		}
		out.S = "((_ " + fn + " 64) RTZ " + v.S + ")"
		if tbits < 64 {
			out.S = f.normBV(out.S, tbits, tsigned)
		}
		return out
	case fs == SInt && ts == SF64:
		out.S = "((_ to_fp 11 53) RNE (to_real " + v.S + "))"
		return out
	case fs == SF64 && ts == SInt:
		out.S = "(f64_to_int " + v.S + ")"
		return out
	case ts == SStr && fint:
		out.S = "(str_of_rune " + v.S + ")"
		return out
	case ts == SStr && strings.HasPrefix(fs, "Slice_"):
		out.S = "(str_of_bytes_" + fs + " " + v.S + ")"
		f.assumed["opaque: string([]byte) conversion"] = true
		f.declareFun("str_of_bytes_"+fs, []string{fs}, SStr)
		return out
	case fs == SStr && strings.HasPrefix(ts, "Slice_"):
		out.S = "(bytes_of_str_" + ts + " " + v.S + ")"
		f.declareFun("bytes_of_str_"+ts, []string{SStr}, ts)
		st.assume("(= (len_" + ts + " " + out.S + ") (str_len " + v.S + "))")
		f.assumed["opaque: []byte(string) conversion (length preserved)"] = true
		return out
	}
	unsup("conversion %s(%s) -> %s(%s) at %s", from, fs, to, ts, pos)
	return Term{}
}

func (f *FuncCtx) declareFun(name string, args []string, res string) {
	if f.declSet[name] {
		return
	}
	if _, isSpec := f.w.specFuncs[name]; isSpec {
		return
	}
	f.declSet[name] = true
	f.decls = append(f.decls, "(declare-fun "+name+" ("+strings.Join(args, " ")+") "+res+")")
}

// toIface converts a value of static type `from` to an interface value (a reference).
func (f *FuncCtx) toIface(st *State, v Term, from types.Type) Term {
	if from == nil {
		return Term{S: v.S, Sort: SInt}
	}
	from = types.Unalias(from)
	switch u := from.Underlying().(type) {
	case *types.Interface:
		return Term{S: v.S, Sort: SInt, GoT: from}
	case *types.Pointer, *types.Map, *types.Signature, *types.Chan:
		_ = u
		if v.S != "0" {
			st.assume(fmt.Sprintf("(or (= %s 0) (= (dyntype %s) %d))", v.S, v.S, f.w.typeID(from)))
		}
		return Term{S: v.S, Sort: SInt, GoT: from}
	case *types.Basic:
		if u.Kind() == types.UntypedNil {
			return Term{S: "0", Sort: SInt}
		}
	}
	// boxing of a non-reference value
	s := v.Sort
	fn := "box_" + mangle(s)
	f.declareFun(fn, []string{s}, SInt)
	f.declareFun("un"+fn, []string{SInt}, s)
	b := "(" + fn + " " + v.S + ")"
	r := f.fresh("box", SInt)
	st.assume("(= " + r + " " + b + ")")
	st.assume("(not (= " + r + " 0))")
	st.assume("(= (un" + fn + " " + r + ") " + v.S + ")")
	st.assume(fmt.Sprintf("(= (dyntype %s) %d)", r, f.w.typeID(from)))
	return Term{S: r, Sort: SInt, GoT: from}
}

// assignable conversion (implicit): only interface conversions matter
func (f *FuncCtx) implicit(st *State, v Term, from, to types.Type) Term {
	if to == nil {
		return v
	}
	if _, isSl := types.Unalias(to).Underlying().(*types.Slice); isSl && v.Sort == SInt {
		return f.zero(to) // nil slice
	}
	if _, isIface := types.Unalias(to).Underlying().(*types.Interface); isIface {
		if from == nil {
			from = v.GoT
		}
		if from != nil {
			if _, fromIface := types.Unalias(from).Underlying().(*types.Interface); !fromIface {
				return f.toIface(st, v, from)
			}
		}
	}
	return v
}

// ---------- type assertion ----------

func (f *FuncCtx) typeAssert(st *State, x *ast.TypeAssertExpr, commaOk bool) (Term, Term) {
	v := f.expr(st, x.X)
	to := types.Unalias(f.tinfo().TypeOf(x.Type))
	return f.assertTo(st, v, to, commaOk, f.site("assert"))
}

func (f *FuncCtx) assertTo(st *State, v Term, to types.Type, commaOk bool, site string) (Term, Term) {
	var okc string
	var res Term
	switch to.Underlying().(type) {
	case *types.Interface:
		if to.Underlying().(*types.Interface).NumMethods() == 0 {
			okc = "(not (= " + v.S + " 0))"
		} else {
			fn := fmt.Sprintf("implements_%d", f.w.typeID(to))
			firstUse := !f.declSet[fn]
			f.declareFun(fn, []string{SInt}, SBool)
			if firstUse {
				// the repository types that implement the interface do so (facts from the type checker; other types stay open)
				if iface, ok := to.Underlying().(*types.Interface); ok {
					for _, pk := range f.w.targets {
						sc := pk.Types.Scope()
						for _, n := range sc.Names() {
							tn, ok := sc.Lookup(n).(*types.TypeName)
							if !ok || tn.IsAlias() {
								continue
							}
							if _, isI := tn.Type().Underlying().(*types.Interface); isI {
								continue
							}
							for _, t := range []types.Type{types.NewPointer(tn.Type()), tn.Type()} {
								if types.Implements(t, iface) {
									f.decls = append(f.decls, fmt.Sprintf("(assert (%s %d))", fn, f.w.typeID(t)))
									break
								}
							}
						}
					}
				}
			}
			okc = "(and (not (= " + v.S + " 0)) (" + fn + " (dyntype " + v.S + ")))"
		}
		res = Term{S: v.S, Sort: SInt, GoT: to}
	case *types.Pointer, *types.Map, *types.Signature:
		okc = fmt.Sprintf("(and (not (= %s 0)) (= (dyntype %s) %d))", v.S, v.S, f.w.typeID(to))
		res = Term{S: v.S, Sort: SInt, GoT: to}
	default:
		s := f.sortOfT(to)
		fn := "unbox_" + mangle(s)
		f.declareFun("box_"+mangle(s), []string{s}, SInt)
		f.declareFun(fn, []string{SInt}, s)
		okc = fmt.Sprintf("(and (not (= %s 0)) (= (dyntype %s) %d))", v.S, v.S, f.w.typeID(to))
		res = Term{S: "(" + fn + " " + v.S + ")", Sort: s, GoT: to}
		// typing facts of the unboxed value (slice lengths are non-negative, integer ranges ...)
		f.typeFacts(st, res)
	}
	if !commaOk {
		f.panicIf(st, "(not "+okc+")", site)
		return res, Term{S: "true", Sort: SBool}
	}
	ok := f.fresh("ok", SBool)
	st.assume("(= " + ok + " " + okc + ")")
	z := f.zero(to)
	return Term{S: "(ite " + ok + " " + res.S + " " + z.S + ")", Sort: res.Sort, GoT: to}, Term{S: ok, Sort: SBool}
}

// ---------- index / slice ----------

func (f *FuncCtx) indexRead(st *State, x *ast.IndexExpr, commaOk bool) (Term, Term) {
	bt := types.Unalias(f.typeOf(x.X))
	switch u := bt.Underlying().(type) {
	case *types.Map:
		m := f.expr(st, x.X)
		k := f.implicit(st, f.expr(st, x.Index), f.typeOf(x.Index), u.Key())
		ks, vs := f.sortOfT(u.Key()), f.sortOfT(u.Elem())
		_ = ks
		dom, val, _ := f.w.mapHeapsT(u, f.bv)
		in := "(and (not (= " + m.S + " 0)) (select (select " + f.heapTerm(st, dom, f.w.heapSorts[dom]) + " " + m.S + ") " + k.S + "))"
		rd := "(select (select " + f.heapTerm(st, val, f.w.heapSorts[val]) + " " + m.S + ") " + k.S + ")"
		z := f.zero(u.Elem())
		okc := f.fresh("in", SBool)
		st.assume("(= " + okc + " " + in + ")")
		v := Term{S: "(ite " + okc + " " + rd + " " + z.S + ")", Sort: vs, GoT: u.Elem()}
		v = f.defineAlways(st, "mv", v)
		f.typeFacts(st, v)
		return v, Term{S: okc, Sort: SBool}
	case *types.Slice, *types.Array:
		s := f.expr(st, x.X)
		i := f.expr(st, x.Index)
		var et types.Type
		if sl, ok := u.(*types.Slice); ok {
			et = sl.Elem()
		} else {
			et = u.(*types.Array).Elem()
		}
		ln := "(len_" + s.Sort + " " + s.S + ")"
		if i.Sort == SBV64 {
			unsup("slice index in bv mode at %s", f.pos(x))
		}
		f.panicIf(st, "(or (< "+i.S+" 0) (>= "+i.S+" "+ln+"))", f.site("index"))
		v := Term{S: "(select (arr_" + s.Sort + " " + s.S + ") " + i.S + ")", Sort: f.w.sliceSorts[s.Sort], GoT: et}
		return v, Term{}
	case *types.Basic: // string index
		s := f.expr(st, x.X)
		i := f.expr(st, x.Index)
		f.panicIf(st, "(or (< "+i.S+" 0) (>= "+i.S+" (str_len "+s.S+")))", f.site("index"))
		return Term{S: "(str_at " + s.S + " " + i.S + ")", Sort: SInt, GoT: f.typeOf(x)}, Term{}
	case *types.Pointer:
		unsup("index through pointer to array at %s", f.pos(x))
	}
	unsup("index of %s at %s", bt, f.pos(x))
	return Term{}, Term{}
}

func (f *FuncCtx) sliceExpr(st *State, x *ast.SliceExpr) Term {
	base := f.expr(st, x.X)
	var lo, hi Term
	if x.Low != nil {
		lo = f.expr(st, x.Low)
	} else {
		lo = Term{S: "0", Sort: SInt}
	}
	if base.Sort == SStr {
		if x.High != nil {
			hi = f.expr(st, x.High)
		} else {
			hi = Term{S: "(str_len " + base.S + ")", Sort: SInt}
		}
		f.panicIf(st, "(or (< "+lo.S+" 0) (> "+lo.S+" "+hi.S+") (> "+hi.S+" (str_len "+base.S+")))", f.site("slice"))
		r := Term{S: "(str_sub " + base.S + " " + lo.S + " " + hi.S + ")", Sort: SStr, GoT: f.typeOf(x)}
		r = f.defineAlways(st, "sub", r)
		st.assume("(= (str_len " + r.S + ") (- " + hi.S + " " + lo.S + "))")
		return r
	}
	if strings.HasPrefix(base.Sort, "Slice_") {
		ln := "(len_" + base.Sort + " " + base.S + ")"
		if x.High != nil {
			hi = f.expr(st, x.High)
		} else {
			hi = Term{S: ln, Sort: SInt}
		}
		// cap is not modelled: high bound checked against len (stricter than Go's cap check)
		f.panicIf(st, "(or (< "+lo.S+" 0) (> "+lo.S+" "+hi.S+") (> "+hi.S+" "+ln+"))", f.site("slice"))
		r := f.fresh("subsl", base.Sort)
		st.assume("(= (len_" + base.Sort + " " + r + ") (- " + hi.S + " " + lo.S + "))")
		st.assume("(forall ((q!k Int)) (=> (and (<= 0 q!k) (< q!k (- " + hi.S + " " + lo.S + "))) (= (select (arr_" + base.Sort + " " + r + ") q!k) (select (arr_" + base.Sort + " " + base.S + ") (+ q!k " + lo.S + ")))))")
		return Term{S: r, Sort: base.Sort, GoT: f.typeOf(x)}
	}
	unsup("slice expression on %s at %s", base.Sort, f.pos(x))
	return Term{}
}

// ---------- composite literals / allocation ----------

type fieldPath struct {
	path string
	typ  types.Type
}

func (f *FuncCtx) flatFields(s *types.Struct, prefix string) []fieldPath {
	var out []fieldPath
	for i := 0; i < s.NumFields(); i++ {
		fv := s.Field(i)
		p := prefix + fv.Name()
		if ns, ok := types.Unalias(fv.Type()).Underlying().(*types.Struct); ok {
			np := namedPath(fv.Type())
			if np != "time.Time" && np != "reflect.Value" && np != "strings.Builder" {
				out = append(out, f.flatFields(ns, p+".")...)
				continue
			}
		}
		out = append(out, fieldPath{p, fv.Type()})
	}
	return out
}

func (f *FuncCtx) allocRef(st *State, hint string, t types.Type) Term {
	r := f.fresh(hint, SInt)
	al := f.heapTerm(st, "alloc", "(Array Int Bool)")
	st.assume("(not (= " + r + " 0))")
	st.assume("(not (select " + al + " " + r + "))")
	st.heap["alloc"] = "(store " + al + " " + r + " true)"
	if t != nil {
		st.assume(fmt.Sprintf("(= (dyntype %s) %d)", r, f.w.typeID(t)))
	}
	return Term{S: r, Sort: SInt, GoT: t}
}

// newZeroObject allocates the private object that models a decode-target struct value, with zeroed fields.
func (f *FuncCtx) newZeroObject(st *State, t types.Type) Term {
	named, _ := types.Unalias(t).(*types.Named)
	u, _ := t.Underlying().(*types.Struct)
	if named == nil || u == nil {
		unsup("zero object of %s", t)
	}
	ref := f.allocRef(st, "val_"+named.Obj().Name(), types.NewPointer(t))
	for _, fp := range f.flatFields(u, "") {
		v := f.zero(fp.typ)
		hn, hs := f.w.fieldHeap(named, fp.path, fp.typ, f.bv)
		f.heapStore(st, hn, hs, ref.S, v.S)
	}
	return Term{S: ref.S, Sort: SInt, GoT: t}
}

func (f *FuncCtx) heapStore(st *State, hn, hs, ref, val string) {
	f.impure = append(f.impure, "writes heap "+hn)
	cur := f.heapTerm(st, hn, hs)
	nt := "(store " + cur + " " + ref + " " + val + ")"
	if len(nt) > 200 {
		c := f.fresh("h_"+hn, hs)
		st.assume("(= " + c + " " + nt + ")")
		nt = c
	}
	st.heap[hn] = nt
}

func (f *FuncCtx) composite(st *State, x *ast.CompositeLit, addr bool) Term {
	t := types.Unalias(f.typeOf(x))
	if namedPath(t) == "reflect.Value" && len(x.Elts) == 0 && !addr {
		return Term{S: "rv_zero", Sort: SRV, GoT: t}
	}
	switch u := t.Underlying().(type) {
	case *types.Struct:
		if !addr {
			unsup("struct literal by value at %s", f.pos(x))
		}
		named, _ := t.(*types.Named)
		if named == nil {
			unsup("anonymous struct literal at %s", f.pos(x))
		}
		// evaluate field values first (Go evaluates operands before allocation is observable)
		vals := map[string]Term{}
		f.litFields(st, x, u, "", vals)
		ref := f.allocRef(st, "new_"+named.Obj().Name(), types.NewPointer(t))
		for _, fp := range f.flatFields(u, "") {
			var v Term
			if vv, ok := vals[fp.path]; ok {
				v = vv
			} else {
				func() {
					defer func() {
						if r := recover(); r != nil {
							if _, ok := r.(unsupported); !ok {
								panic(r)
							}
							v = Term{}
						}
					}()
					v = f.zero(fp.typ)
				}()
				if v.S == "" {
					continue
				}
			}
			hn, hs := f.w.fieldHeap(named, fp.path, fp.typ, f.bv)
			f.heapStore(st, hn, hs, ref.S, v.S)
		}
		return ref
	case *types.Slice:
		es := f.sortOfT(u.Elem())
		ss := f.w.sliceSort(es)
		arr := f.fresh("litarr", "(Array Int "+es+")")
		cur := arr
		for i, el := range x.Elts {
			if _, isKV := el.(*ast.KeyValueExpr); isKV {
				unsup("keyed slice literal at %s", f.pos(x))
			}
			v := f.implicit(st, f.expr(st, el), f.typeOf(el), u.Elem())
			cur = fmt.Sprintf("(store %s %d %s)", cur, i, v.S)
		}
		return Term{S: fmt.Sprintf("(mk_%s %d %s)", ss, len(x.Elts), cur), Sort: ss, GoT: t}
	case *types.Map:
		m := f.makeMap(st, t, u)
		for _, el := range x.Elts {
			kv := el.(*ast.KeyValueExpr)
			k := f.implicit(st, f.expr(st, kv.Key), f.typeOf(kv.Key), u.Key())
			v := f.implicit(st, f.expr(st, kv.Value), f.typeOf(kv.Value), u.Elem())
			f.mapStore(st, m, u, k, v)
		}
		return m
	}
	unsup("composite literal of %s at %s", t, f.pos(x))
	return Term{}
}

func (f *FuncCtx) litFields(st *State, x *ast.CompositeLit, s *types.Struct, prefix string, vals map[string]Term) {
	for i, el := range x.Elts {
		var name string
		var ve ast.Expr
		var ft types.Type
		if kv, ok := el.(*ast.KeyValueExpr); ok {
			name = kv.Key.(*ast.Ident).Name
			ve = kv.Value
			for j := 0; j < s.NumFields(); j++ {
				if s.Field(j).Name() == name {
					ft = s.Field(j).Type()
				}
			}
		} else {
			name = s.Field(i).Name()
			ft = s.Field(i).Type()
			ve = el
		}
		if ns, ok := types.Unalias(ft).Underlying().(*types.Struct); ok {
			np := namedPath(ft)
			if np != "time.Time" && np != "reflect.Value" {
				cl, ok := ast.Unparen(ve).(*ast.CompositeLit)
				if !ok {
					unsup("struct-valued field initialised from a non-literal at %s", f.pos(ve))
				}
				f.litFields(st, cl, ns, prefix+name+".", vals)
				continue
			}
		}
		f.sliceAliasCheck(st, ft, ve)
		v := f.implicit(st, f.expr(st, ve), f.typeOf(ve), ft)
		vals[prefix+name] = v
	}
}

func (f *FuncCtx) makeMap(st *State, t types.Type, u *types.Map) Term {
	ks, vs := f.sortOfT(u.Key()), f.sortOfT(u.Elem())
	_ = vs
	dom, _, ln := f.w.mapHeapsT(u, f.bv)
	r := f.allocRef(st, "newmap", t)
	f.heapStore(st, dom, f.w.heapSorts[dom], r.S, "((as const (Array "+ks+" Bool)) false)")
	f.heapStore(st, ln, f.w.heapSorts[ln], r.S, "0")
	return r
}

func (f *FuncCtx) mapStore(st *State, m Term, u *types.Map, k, v Term) {
	ks, vs := f.sortOfT(u.Key()), f.sortOfT(u.Elem())
	_ = ks
	_ = vs
	dom, val, ln := f.w.mapHeapsT(u, f.bv)
	f.panicIf(st, "(= "+m.S+" 0)", f.site("nilmap"))
	d := f.heapTerm(st, dom, f.w.heapSorts[dom])
	in := "(select (select " + d + " " + m.S + ") " + k.S + ")"
	l := f.heapTerm(st, ln, f.w.heapSorts[ln])
	f.heapStore(st, ln, f.w.heapSorts[ln], m.S, "(ite "+in+" (select "+l+" "+m.S+") (+ (select "+l+" "+m.S+") 1))")
	f.heapStore(st, dom, f.w.heapSorts[dom], m.S, "(store (select "+d+" "+m.S+") "+k.S+" true)")
	vv := f.heapTerm(st, val, f.w.heapSorts[val])
	f.heapStore(st, val, f.w.heapSorts[val], m.S, "(store (select "+vv+" "+m.S+") "+k.S+" "+v.S+")")
}

func (f *FuncCtx) mapDelete(st *State, m Term, u *types.Map, k Term) {
	ks, vs := f.sortOfT(u.Key()), f.sortOfT(u.Elem())
	_ = ks
	_ = vs
	dom, _, ln := f.w.mapHeapsT(u, f.bv)
	d := f.heapTerm(st, dom, f.w.heapSorts[dom])
	in := "(and (not (= " + m.S + " 0)) (select (select " + d + " " + m.S + ") " + k.S + "))"
	inc := f.fresh("in", SBool)
	st.assume("(= " + inc + " " + in + ")")
	l := f.heapTerm(st, ln, f.w.heapSorts[ln])
	// deleting from a nil map is a no-op; we only touch index m when m != 0 (index 0 is never a live map)
	f.heapStore(st, ln, f.w.heapSorts[ln], m.S, "(ite "+inc+" (- (select "+l+" "+m.S+") 1) (select "+l+" "+m.S+"))")
	f.heapStore(st, dom, f.w.heapSorts[dom], m.S, "(store (select "+d+" "+m.S+") "+k.S+" false)")
}

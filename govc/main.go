package main

import (
	"flag"
	"fmt"
	"os"
	"regexp"
	"runtime"
	"sort"
	"strings"
	"sync"
	"time"
)

var verifDir = "/verif"
var repoDir = "/repo"

func main() {
	if len(os.Args) < 2 {
		fmt.Fprintln(os.Stderr, "usage: govc verify <regexp> | check <Cxx> [--tier quick|thorough] | selftest")
		os.Exit(2)
	}
	if d := os.Getenv("GOVC_VERIF"); d != "" {
		verifDir = d
	}
	if d := os.Getenv("GOVC_REPO"); d != "" {
		repoDir = d
	}
	defer cleanupScratch()
	code := 0
	switch os.Args[1] {
	case "verify":
		code = cmdVerify(os.Args[2:])
	case "check":
		code = cmdCheck(os.Args[2:])
	case "selftest":
		code = cmdSelftest(os.Args[2:])
	case "warm":
		if _, err := setupWorld(nil); err != nil {
			fmt.Println("warm: load failed:", err)
			code = 2
		} else {
			fmt.Println("warm: packages load and contracts resolve")
		}
	case "replay":
		code = cmdReplay(os.Args[2:])
	default:
		fmt.Fprintln(os.Stderr, "unknown command", os.Args[1])
		code = 2
	}
	cleanupScratch()
	os.Exit(code)
}

func setupWorld(overlay map[string][]byte) (*World, error) {
	if err := loadPrelude(verifDir + "/trusted"); err != nil {
		return nil, err
	}
	w, err := loadWorld(repoDir, overlay, verifDir+"/trusted")
	if err != nil {
		return nil, err
	}
	w.strLit("time.Time")
	w.strLit("")
	if err := w.translateGlobals(); err != nil {
		return nil, err
	}
	return w, nil
}

// solveAll builds queries sequentially and solves them in parallel.
func solveAll(w *World, ctxs map[string]*FuncCtx, obls []*Obligation, timeoutS int, all bool) {
	for _, o := range obls {
		o.Query = w.buildQuery(ctxs[o.Func], o)
	}
	var wg sync.WaitGroup
	sem := make(chan struct{}, runtime.NumCPU())
	for _, o := range obls {
		o := o
		wg.Add(1)
		sem <- struct{}{}
		go func() {
			defer wg.Done()
			defer func() { <-sem }()
			to := timeoutS
			if o.Expect == "sat" && to > 3 {
				to = 3
			}
			r := solve(o.Query, to, all && o.Expect == "unsat")
			o.Res = &r
		}()
	}
	wg.Wait()
}

func cmdVerify(args []string) int {
	fs := flag.NewFlagSet("verify", flag.ExitOnError)
	timeout := fs.Int("t", 10, "solver timeout (s)")
	dump := fs.String("dump", "", "dump queries of obligations whose id matches this regexp")
	verbose := fs.Bool("v", false, "print every obligation")
	fs.Parse(args)
	pat := ".*"
	if fs.NArg() > 0 {
		pat = fs.Arg(0)
	}
	re := regexp.MustCompile(pat)
	t0 := time.Now()
	w, err := setupWorld(nil)
	if err != nil {
		fmt.Fprintln(os.Stderr, "load:", err)
		return 2
	}
	fmt.Printf("loaded in %.1fs; %d contracts\n", time.Since(t0).Seconds(), len(w.conList))
	var keys []string
	for k, c := range w.contracts {
		if !c.Extern && re.MatchString(shortName(k)) {
			keys = append(keys, k)
		}
	}
	sort.Strings(keys)
	ctxs := map[string]*FuncCtx{}
	var obls []*Obligation
	bad := 0
	for _, k := range keys {
		f, err := w.verifyFunc(k)
		if err != nil {
			fmt.Println("ERROR", err)
			bad++
			continue
		}
		ctxs[f.key] = f
		obls = append(obls, f.obls...)
	}
	solveAll(w, ctxs, obls, *timeout, false)
	var dre *regexp.Regexp
	if *dump != "" {
		dre = regexp.MustCompile(*dump)
	}
	ok := 0
	for _, o := range obls {
		good := o.Res.Verdict == o.Expect || (o.Expect == "sat" && o.Res.Verdict == "unknown")
		if good {
			ok++
		} else {
			bad++
		}
		if !good || *verbose {
			fmt.Printf("%-7s %-8s %s  [%s %.2fs] %s\n", map[bool]string{true: "ok", false: "FAIL"}[good], o.Res.Verdict, o.ID, o.Res.Solver, o.Res.Seconds, o.Clause)
			if !good && o.Res.Verdict == "unknown" {
				fmt.Println("        ", firstLine(o.Res.Raw))
			}
		}
		if dre != nil && dre.MatchString(o.ID) {
			fn := "/tmp/govc-dump-" + strings.NewReplacer("/", "_", "#", "_", "(", "", ")", "", "*", "").Replace(o.ID) + ".smt2"
			os.WriteFile(fn, []byte(o.Query), 0o644)
			fmt.Println("   dumped", fn)
			if o.Res.Verdict == "sat" {
				m := parseModel(o.Res.Model)
				var ks []string
				for k := range m {
					if strings.HasPrefix(k, "v_in_") {
						ks = append(ks, k)
					}
				}
				sort.Strings(ks)
				for _, k := range ks {
					fmt.Println("     ", k, "=", m[k])
				}
			}
		}
	}
	for _, wn := range w.warnings {
		fmt.Println("warning:", wn)
	}
	fmt.Printf("%d functions, %d obligations, %d ok, %d failed, %.1fs\n", len(keys), len(obls), ok, bad, time.Since(t0).Seconds())
	if bad > 0 {
		return 1
	}
	return 0
}

package main

import (
	"flag"
	"fmt"
	"go/types"
	"os"
	"regexp"
	"runtime"
	"sort"
	"strings"
	"sync"
	"time"
)

var verifDir = "/verif"
var repoDir = "/repo"

func main() {
	if len(os.Args) < 2 {
		fmt.Fprintln(os.Stderr, "usage: govc verify <regexp> | check <Cxx> [--tier quick|thorough] | selftest")
		os.Exit(2)
	}
	if d := os.Getenv("GOVC_VERIF"); d != "" {
		verifDir = d
	}
	if d := os.Getenv("GOVC_REPO"); d != "" {
		repoDir = d
	}
	defer cleanupScratch()
	code := 0
	switch os.Args[1] {
	case "verify":
		code = cmdVerify(os.Args[2:])
	case "check":
		code = cmdCheck(os.Args[2:])
	case "selftest":
		code = cmdSelftest(os.Args[2:])
	case "warm":
		if _, err := setupWorld(nil); err != nil {
			fmt.Println("warm: load failed:", err)
			code = 2
		} else {
			fmt.Println("warm: packages load and contracts resolve")
		}
	case "replay":
		code = cmdReplay(os.Args[2:])
	case "sweep":
		code = cmdSweep(os.Args[2:])
	default:
		fmt.Fprintln(os.Stderr, "unknown command", os.Args[1])
		code = 2
	}
	cleanupScratch()
	os.Exit(code)
}

func setupWorld(overlay map[string][]byte) (*World, error) {
	if err := loadPrelude(verifDir + "/trusted"); err != nil {
		return nil, err
	}
	w, err := loadWorld(repoDir, overlay, verifDir+"/trusted")
	if err != nil {
		return nil, err
	}
	w.strLit("time.Time")
	w.strLit("")
	if err := w.translateGlobals(); err != nil {
		return nil, err
	}
	return w, nil
}

// solveAll builds queries sequentially and solves them in parallel.
func solveAll(w *World, ctxs map[string]*FuncCtx, obls []*Obligation, timeoutS int, all bool) {
	for _, o := range obls {
		o.Query = w.buildQuery(ctxs[o.Func], o)
	}
	var wg sync.WaitGroup
	sem := make(chan struct{}, runtime.NumCPU())
	for _, o := range obls {
		o := o
		wg.Add(1)
		sem <- struct{}{}
		go func() {
			defer wg.Done()
			defer func() { <-sem }()
			to := timeoutS
			if o.Expect == "sat" && to > 3 {
				to = 3
			}
			r := solve(o.Query, to, all && o.Expect == "unsat")
			o.Res = &r
		}()
	}
	wg.Wait()
}

func cmdVerify(args []string) int {
	fs := flag.NewFlagSet("verify", flag.ExitOnError)
	timeout := fs.Int("t", 10, "solver timeout (s)")
	dump := fs.String("dump", "", "dump queries of obligations whose id matches this regexp")
	verbose := fs.Bool("v", false, "print every obligation")
	fs.Parse(args)
	pat := ".*"
	if fs.NArg() > 0 {
		pat = fs.Arg(0)
	}
	re := regexp.MustCompile(pat)
	t0 := time.Now()
	w, err := setupWorld(nil)
	if err != nil {
		fmt.Fprintln(os.Stderr, "load:", err)
		return 2
	}
	fmt.Printf("loaded in %.1fs; %d contracts\n", time.Since(t0).Seconds(), len(w.conList))
	var keys []string
	for k, c := range w.contracts {
		if !c.Extern && re.MatchString(shortName(k)) {
			keys = append(keys, k)
		}
	}
	sort.Strings(keys)
	ctxs := map[string]*FuncCtx{}
	var obls []*Obligation
	bad := 0
	for _, k := range keys {
		f, err := w.verifyFunc(k)
		if err != nil {
			fmt.Println("ERROR", err)
			bad++
			continue
		}
		ctxs[f.key] = f
		obls = append(obls, f.obls...)
	}
	solveAll(w, ctxs, obls, *timeout, false)
	var dre *regexp.Regexp
	if *dump != "" {
		dre = regexp.MustCompile(*dump)
	}
	ok := 0
	for _, o := range obls {
		good := o.Res.Verdict == o.Expect || (o.Expect == "sat" && o.Res.Verdict == "unknown")
		if good {
			ok++
		} else {
			bad++
		}
		if !good || *verbose {
			fmt.Printf("%-7s %-8s %s  [%s %.2fs] %s\n", map[bool]string{true: "ok", false: "FAIL"}[good], o.Res.Verdict, o.ID, o.Res.Solver, o.Res.Seconds, o.Clause)
			if !good && o.Res.Verdict == "unknown" {
				fmt.Println("        ", firstLine(o.Res.Raw))
			}
		}
		if dre != nil && dre.MatchString(o.ID) {
			fn := "/tmp/govc-dump-" + strings.NewReplacer("/", "_", "#", "_", "(", "", ")", "", "*", "").Replace(o.ID) + ".smt2"
			os.WriteFile(fn, []byte(o.Query), 0o644)
			fmt.Println("   dumped", fn)
			if o.Res.Verdict == "sat" {
				m := parseModel(o.Res.Model)
				var ks []string
				for k := range m {
					if strings.HasPrefix(k, "v_in_") {
						ks = append(ks, k)
					}
				}
				sort.Strings(ks)
				for _, k := range ks {
					fmt.Println("     ", k, "=", m[k])
				}
			}
		}
	}
	for _, wn := range w.warnings {
		fmt.Println("warning:", wn)
	}
	fmt.Printf("%d functions, %d obligations, %d ok, %d failed, %.1fs\n", len(keys), len(obls), ok, bad, time.Since(t0).Seconds())
	if bad > 0 {
		return 1
	}
	return 0
}

// cmdSweep: zero-annotation no-panic sweep (exploration tool, not a registered check). Every function of the repository
// whose "pkg.Func" name matches the regexp and that has no contract gets the synthetic contract
// {requires recv != nil; nopanic; modifies *}; failing panic edges are printed as candidates for triage.
func cmdSweep(args []string) int {
	fs := flag.NewFlagSet("sweep", flag.ExitOnError)
	timeout := fs.Int("t", 10, "solver timeout (s)")
	fs.Parse(args)
	if fs.NArg() < 1 {
		fmt.Fprintln(os.Stderr, "usage: govc sweep <func-regex>")
		return 2
	}
	re := regexp.MustCompile(fs.Arg(0))
	w, err := setupWorld(nil)
	if err != nil {
		fmt.Fprintln(os.Stderr, "load:", err)
		return 2
	}
	var keys []string
	for k, fi := range w.funcs {
		if _, has := w.contracts[k]; has || fi.Decl.Body == nil || !re.MatchString(shortName(k)) {
			continue
		}
		sig := fi.Obj.Type().(*types.Signature)
		c := &Contract{File: "sweep", PkgName: fi.Pkg.Name, Header: "sweep " + shortName(k), FuncName: fi.Obj.Name(), ModAll: true, NoPanic: true,
			Invariants: map[int][]*Clause{}, Decreases: map[int]*CE{}, Unroll: map[int]int{}, Opts: map[string]string{}}
		for i := 0; i < sig.Params().Len(); i++ {
			n := sig.Params().At(i).Name()
			if n == "" || n == "_" {
				n = fmt.Sprintf("p%d", i)
			}
			c.Params = append(c.Params, n)
		}
		for i := 0; i < sig.Results().Len(); i++ {
			c.Results = append(c.Results, fmt.Sprintf("r%d", i))
		}
		if sig.Recv() != nil && fi.Decl.Recv != nil && len(fi.Decl.Recv.List[0].Names) > 0 {
			c.RecvName = fi.Decl.Recv.List[0].Names[0].Name
			if _, isPtr := sig.Recv().Type().(*types.Pointer); isPtr {
				e, perr := parseCEString(c.RecvName + " != nil")
				if perr == nil {
					c.Requires = append(c.Requires, &Clause{Kind: "requires", Expr: e, Text: c.RecvName + " != nil", N: 1})
				}
			}
		}
		w.contracts[k] = c
		w.conObj[c] = fi.Obj
		keys = append(keys, k)
	}
	sort.Strings(keys)
	ctxs := map[string]*FuncCtx{}
	var obls []*Obligation
	for _, k := range keys {
		f, err := w.verifyFunc(k)
		if err != nil {
			fmt.Println("SKIP ", err)
			continue
		}
		ctxs[f.key] = f
		for _, o := range f.obls {
			if o.Kind == "nopanic" || strings.Contains(o.ID, "#pre(") {
				obls = append(obls, o)
			}
		}
	}
	solveAll(w, ctxs, obls, *timeout, false)
	bad := 0
	for _, o := range obls {
		if o.Res.Verdict != o.Expect {
			bad++
			fmt.Printf("CAND  %-8s %s\n", o.Res.Verdict, o.ID)
		}
	}
	fmt.Printf("sweep: %d functions, %d panic/precondition obligations, %d candidates\n", len(keys), len(obls), bad)
	return 0
}

func parseCEString(s string) (*CE, error) {
	p := &cparser{src: s}
	p.lex()
	if p.err != nil {
		return nil, p.err
	}
	e := p.parseExpr(0)
	return e, p.err
}

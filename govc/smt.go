package main

// Solver portfolio: every obligation is one SMT-LIB2 file raced on z3 4.8.12, z3-new 5.1.0, cvc5 1.0.3.
// First definite answer (unsat = discharged, sat = counterexample) wins.

import (
	"bytes"
	"context"
	"crypto/sha256"
	"encoding/hex"
	"fmt"
	"os"
	"os/exec"
	"path/filepath"
	"regexp"
	"strings"
	"sync"
	"sync/atomic"
	"time"
)

type SolverResult struct {
	Verdict string // unsat | sat | unknown
	Solver  string
	Seconds float64
	Model   string // raw model text when sat
	Raw     string
}

type solverDef struct {
	name string
	argv func(file string, timeoutS int) []string
}

var solvers = []solverDef{
	{"z3-4.8.12", func(f string, t int) []string { return []string{"/usr/bin/z3", fmt.Sprintf("-T:%d", t), f} }},
	{"z3-new-5.1.0", func(f string, t int) []string { return []string{"z3-new", fmt.Sprintf("-T:%d", t), f} }},
	{"cvc5-1.0.3", func(f string, t int) []string {
		return []string{"cvc5", "--produce-models", fmt.Sprintf("--tlimit=%d", t*1000), f}
	}},
}

var qCounter int64
var scratchDir string
var scratchOnce sync.Once

func scratch() string {
	scratchOnce.Do(func() {
		d := os.Getenv("GOVC_SCRATCH")
		if d == "" {
			var err error
			d, err = os.MkdirTemp("", "govc-")
			if err != nil {
				panic(err)
			}
		} else {
			os.MkdirAll(d, 0o755)
		}
		scratchDir = d
	})
	return scratchDir
}

func cleanupScratch() {
	if scratchDir != "" && os.Getenv("GOVC_KEEP") == "" {
		os.RemoveAll(scratchDir)
	}
}

func hashStr(s string) string {
	h := sha256.Sum256([]byte(s))
	return hex.EncodeToString(h[:8])
}

// cvc5 does not know z3's (get-model) failing after unsat, etc. We produce one text for all solvers:
// (set-logic ALL) ... (check-sat) (get-model).
func runOne(ctx context.Context, sd solverDef, file string, timeoutS int) SolverResult {
	t0 := time.Now()
	argv := sd.argv(file, timeoutS)
	cctx, cancel := context.WithTimeout(ctx, time.Duration(timeoutS+2)*time.Second)
	defer cancel()
	cmd := exec.CommandContext(cctx, argv[0], argv[1:]...)
	var out bytes.Buffer
	cmd.Stdout = &out
	cmd.Stderr = &out
	_ = cmd.Run()
	txt := out.String()
	first := strings.TrimSpace(txt)
	if i := strings.IndexByte(first, '\n'); i >= 0 {
		first = strings.TrimSpace(first[:i])
	}
	r := SolverResult{Solver: sd.name, Seconds: time.Since(t0).Seconds(), Raw: txt}
	switch first {
	case "unsat":
		r.Verdict = "unsat"
	case "sat":
		r.Verdict = "sat"
		if i := strings.IndexByte(txt, '\n'); i >= 0 {
			r.Model = txt[i+1:]
		}
	default:
		r.Verdict = "unknown"
	}
	return r
}

// solve races the portfolio. If all is true every solver must answer and definite answers must agree
// (thorough tier); otherwise first definite answer wins.
var reDefArith = regexp.MustCompile(`(?m)^\(define-fun (\w+) \(((?:\(\w+ \w+\) ?)+)\) (\w+) .*$`)

// abstractArith turns the arithmetic wrappers of the prelude into uninterpreted functions.
func abstractArith(query string) (string, bool) {
	i := strings.Index(query, "; @begin-arith")
	j := strings.Index(query, "; @end-arith")
	if i < 0 || j < 0 {
		return "", false
	}
	chunk := query[i:j]
	used := false
	for _, m := range reDefArith.FindAllStringSubmatch(chunk, -1) {
		if strings.Contains(query[j:], "("+m[1]+" ") {
			used = true
		}
	}
	if !used {
		return "", false
	}
	abs := reDefArith.ReplaceAllStringFunc(chunk, func(l string) string {
		m := reDefArith.FindStringSubmatch(l)
		var sorts []string
		for _, p := range regexp.MustCompile(`\(\w+ (\w+)\)`).FindAllStringSubmatch(m[2], -1) {
			sorts = append(sorts, p[1])
		}
		return "(declare-fun " + m[1] + " (" + strings.Join(sorts, " ") + ") " + m[3] + ")"
	})
	return query[:i] + abs + query[j:], true
}

func solve(query string, timeoutS int, all bool) SolverResult {
	file := filepath.Join(scratch(), fmt.Sprintf("q-%s-%d.smt2", hashStr(query), atomic.AddInt64(&qCounter, 1)))
	if err := os.WriteFile(file, []byte(query), 0o644); err != nil {
		return SolverResult{Verdict: "unknown", Raw: err.Error()}
	}
	defer os.Remove(file)
	ctx, cancel := context.WithCancel(context.Background())
	defer cancel()
	ch := make(chan SolverResult, len(solvers)+1)
	for _, sd := range solvers {
		sd := sd
		go func() { ch <- runOne(ctx, sd, file, timeoutS) }()
	}
	nrun := len(solvers)
	if aq, ok := abstractArith(query); ok {
		afile := file + ".abs.smt2"
		if os.WriteFile(afile, []byte(aq), 0o644) == nil {
			defer os.Remove(afile)
			nrun++
			go func() {
				r := runOne(ctx, solvers[1], afile, timeoutS)
				r.Solver += "/uf-abstraction"
				if r.Verdict != "unsat" {
					r.Verdict = "unknown" // only a refutation of the abstraction is conclusive
				}
				ch <- r
			}()
		}
	}
	var results []SolverResult
	var grace <-chan time.Time
collect:
	for len(results) < nrun {
		select {
		case r := <-ch:
			results = append(results, r)
			if r.Verdict != "unknown" {
				if !all {
					cancel()
					return r
				}
				if grace == nil {
					// agreement mode: the other solvers get a short grace period to confirm or contradict
					grace = time.After(4 * time.Second)
				}
			}
		case <-grace:
			cancel()
			break collect
		}
	}
	var def *SolverResult
	for i := range results {
		r := &results[i]
		if r.Verdict == "unknown" {
			continue
		}
		if def == nil {
			def = r
		} else if def.Verdict != r.Verdict {
			return SolverResult{Verdict: "unknown", Solver: "disagreement:" + def.Solver + "/" + r.Solver,
				Raw: "solver disagreement: " + def.Solver + "=" + def.Verdict + " " + r.Solver + "=" + r.Verdict}
		}
	}
	if def != nil {
		names := []string{}
		for _, r := range results {
			if r.Verdict == def.Verdict {
				names = append(names, r.Solver)
			}
		}
		d := *def
		d.Solver = strings.Join(names, "+")
		return d
	}
	raw := ""
	for _, r := range results {
		raw += r.Solver + ": " + firstLine(r.Raw) + "; "
	}
	return SolverResult{Verdict: "unknown", Solver: "none", Raw: raw}
}

func firstLine(s string) string {
	s = strings.TrimSpace(s)
	if i := strings.IndexByte(s, '\n'); i >= 0 {
		return s[:i]
	}
	return s
}

// ---------- model parsing (z3 / cvc5 `(define-fun name () Sort value)`) ----------

// parseModel returns name -> value s-expression text for 0-ary definitions.
func parseModel(model string) map[string]string {
	res := map[string]string{}
	toks := sexpTokens(model)
	// find sequences: ( define-fun NAME ( ) SORT VALUE )
	i := 0
	for i < len(toks) {
		if toks[i] == "(" && i+1 < len(toks) && toks[i+1] == "define-fun" {
			// parse the whole sexp
			end := matchParen(toks, i)
			body := toks[i+2 : end]
			if len(body) >= 3 && body[1] == "(" && body[2] == ")" {
				name := body[0]
				rest := body[3:]
				// skip sort
				var n int
				if rest[0] == "(" {
					n = matchParen(rest, 0) + 1
				} else {
					n = 1
				}
				val := strings.Join(rest[n:], " ")
				val = strings.ReplaceAll(val, "( ", "(")
				val = strings.ReplaceAll(val, " )", ")")
				res[strings.Trim(name, "|")] = val
			}
			i = end + 1
			continue
		}
		i++
	}
	return res
}

func sexpTokens(s string) []string {
	var toks []string
	i := 0
	for i < len(s) {
		c := s[i]
		switch {
		case c == '(' || c == ')':
			toks = append(toks, string(c))
			i++
		case c == ' ' || c == '\n' || c == '\t' || c == '\r':
			i++
		case c == ';':
			for i < len(s) && s[i] != '\n' {
				i++
			}
		case c == '"':
			j := i + 1
			for j < len(s) {
				if s[j] == '"' {
					if j+1 < len(s) && s[j+1] == '"' {
						j += 2
						continue
					}
					break
				}
				j++
			}
			toks = append(toks, s[i:j+1])
			i = j + 1
		case c == '|':
			j := i + 1
			for j < len(s) && s[j] != '|' {
				j++
			}
			toks = append(toks, s[i:j+1])
			i = j + 1
		default:
			j := i
			for j < len(s) && !strings.ContainsRune("() \n\t\r", rune(s[j])) {
				j++
			}
			toks = append(toks, s[i:j])
			i = j
		}
	}
	return toks
}

func matchParen(toks []string, i int) int {
	depth := 0
	for j := i; j < len(toks); j++ {
		if toks[j] == "(" {
			depth++
		} else if toks[j] == ")" {
			depth--
			if depth == 0 {
				return j
			}
		}
	}
	return len(toks) - 1
}

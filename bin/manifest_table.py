HOOK_COMMITS = ["a8449cc", "643940d"]
HOOK_COMMITS.append("90c9932")
CLAIMED["C05"] = dict(
  text="Deductive proof on the real source that every cell of the arithmetic, bitwise, comparison and logical kind x kind tables of pkg/reflectmath.go computes the documented operator on number CLASSES (signed/unsigned/float): int op int in 64-bit two's complement, int-to-float64 promotion (RNE) as soon as a float is involved, `/` always the float64 quotient, `%` Go's truncated remainder, `+` concatenating with the documented formatting when a string is involved; for ALL operand values and all kind pairs, with no escaping panic on well-typed operands.",
  note="Slice: the evaluation half (operator tables; the Expression/ExpressionAtom dispatch is added when the ast contracts land). NOT decided: grouping/precedence/associativity and insensitivity to whitespace, comments, parentheses and keyword case — properties of the ANTLR-generated parser, which no contract within reach expresses (T-ANTLR); literal decoding by strconv (T-STR). Trusted: reflect model, fmt verbs as uninterpreted per-verb formatters, float32 modelled as the float64 it converts to. Spec decisions where docs are silent are listed in DESIGN §4 C05.",
  design="§4 C05")
NA.pop("C05", None)
